"""PosixModel -- the environment stub shared by every engine.

A model of the *system-call layer* of a POSIX file system, just large enough
for what trash-cli (and the parts of CPython's os.py / posixpath.py /
shutil.py it calls) asks of it.  Library-level behaviour (os.makedirs,
os.walk, os.path.realpath/ismount/exists..., shutil.move/rmtree/copytree) is
NOT modelled here: vf.facade re-executes CPython's own source for those on
top of these system calls, so every step of them is one atomic operation
("tick") of this model.

Every system call goes through ``_sys`` which gives the installed hook the
chance to crash the process, inject an errno, suspend the process
(scheduling) or replay a logged result.

Semantics follow Linux (the differential validator in vf.realfs compares
this model with a real tmpfs inside a chroot + private mount namespace).

Not modelled: hard links, ownership / permission checks, special files,
xattrs, timestamps other than mtime, partial writes, signals.
"""
import errno
import stat as _stat

NAME_MAX = 255
PATH_MAX = 4095
SYMLOOP_MAX = 40
FRESH_CLOCK_BASE = 10 ** 18  # mtimes produced by the model's logical clock

O_RDONLY = 0
O_WRONLY = 1
O_RDWR = 2
O_CREAT = 0o100
O_EXCL = 0o200
O_TRUNC = 0o1000
O_APPEND = 0o2000
O_NOFOLLOW = 0o400000
O_DIRECTORY = 0o200000
O_CLOEXEC = 0o2000000
O_NONBLOCK = 0o4000


class Crash(BaseException):
    """the process is killed between two system calls"""


class Suspend(BaseException):
    """the scheduler takes the CPU away from the process"""


class ModelUnsupported(BaseException):
    """trash-cli asked the environment stub for something it does not model"""


class StepBudgetExceeded(BaseException):
    """non-termination guard: too many system calls in one run"""


def oserr(no, path=None, path2=None):
    cls = {errno.ENOENT: FileNotFoundError, errno.EEXIST: FileExistsError,
           errno.ENOTDIR: NotADirectoryError, errno.EISDIR: IsADirectoryError,
           errno.EACCES: PermissionError, errno.EPERM: PermissionError,
           }.get(no, OSError)
    import os as _os
    if path2 is not None:
        return cls(no, _os.strerror(no), path, None, path2)
    if path is not None:
        return cls(no, _os.strerror(no), path)
    return cls(no, _os.strerror(no))


class Node(object):
    __slots__ = ('kind', 'mode', 'data', 'children', 'mtime', 'ino')

    def __init__(self, kind, mode, data=None, mtime=0, ino=0):
        self.kind = kind  # 'd' | 'f' | 'l'
        self.mode = mode  # permission bits incl. sticky
        self.data = data  # bytes for 'f', str target for 'l'
        self.children = {} if kind == 'd' else None
        self.mtime = mtime
        self.ino = ino


class StatResult(object):
    __slots__ = ('st_mode', 'st_ino', 'st_dev', 'st_nlink', 'st_uid', 'st_gid',
                 'st_size', 'st_mtime_ns', 'st_atime_ns', 'st_ctime_ns')

    def __init__(self, node, dev, uid):
        fmt = {'d': _stat.S_IFDIR, 'f': _stat.S_IFREG, 'l': _stat.S_IFLNK}[node.kind]
        self.st_mode = fmt | node.mode
        self.st_ino = node.ino
        self.st_dev = dev
        self.st_nlink = 1
        self.st_uid = uid
        self.st_gid = uid
        if node.kind == 'f':
            self.st_size = len(node.data)
        elif node.kind == 'l':
            self.st_size = len(node.data)
        else:
            self.st_size = 4096
        self.st_mtime_ns = node.mtime
        self.st_atime_ns = node.mtime
        self.st_ctime_ns = node.mtime

    @property
    def st_mtime(self):
        return self.st_mtime_ns / 1e9

    @property
    def st_atime(self):
        return self.st_atime_ns / 1e9

    @property
    def st_ctime(self):
        return self.st_ctime_ns / 1e9

    def __repr__(self):
        return 'StatResult(mode=%o, ino=%d, dev=%d, size=%d)' % (
            self.st_mode, self.st_ino, self.st_dev, self.st_size)


class Res(object):
    """result of a path resolution"""
    __slots__ = ('parent', 'name', 'node', 'cpath', 'last_kind', 'trailing')

    def __init__(self, parent, name, node, cpath, last_kind, trailing):
        self.parent = parent  # directory Node holding the final entry (None for '/')
        self.name = name  # final component as stored in parent.children
        self.node = node  # Node or None when the final entry does not exist
        self.cpath = cpath  # canonical components (tuple) of the final entry
        self.last_kind = last_kind  # 'norm' | 'dot' | 'dotdot' | 'root'
        self.trailing = trailing  # path ended with '/'


def _name_len(name):
    try:
        return len(name.encode('utf-8', 'surrogateescape'))
    except Exception:
        return len(name)


def split_components(path):
    out = []
    for c in path.split('/'):
        if c != '':
            out.append(c)
    return out


class OpenFile(object):
    __slots__ = ('node', 'cpath', 'flags', 'pos')

    def __init__(self, node, cpath, flags):
        self.node = node
        self.cpath = cpath
        self.flags = flags
        self.pos = 0


class PosixModel(object):
    def __init__(self, mounts=('/',), uid=0, umask=0o022):
        self._next_ino = 2
        self.clock = FRESH_CLOCK_BASE
        self.root = self._new('d', 0o755)
        self.mounts = [tuple(split_components(m)) for m in mounts]
        self.cwd_node = self.root
        self.uid = uid
        self.umask = umask
        self.fds = {}
        self.next_fd = 3
        self.nops = 0
        self.oplog = []
        self.hook = None
        self.max_ops = 5000

    # ------------------------------------------------------------------ util
    def _new(self, kind, mode, data=None, mtime=None):
        self._next_ino += 1
        if mtime is None:
            self.clock += 1
            mtime = self.clock
        return Node(kind, mode, data, mtime, self._next_ino)

    def _touch_dir(self, d):
        self.clock += 1
        d.mtime = self.clock

    def dev_of(self, cpath):
        best = 0
        bestlen = -1
        for i, m in enumerate(self.mounts):
            if len(m) <= len(cpath) and tuple(cpath[:len(m)]) == m and len(m) > bestlen:
                best, bestlen = i, len(m)
        return best + 1

    def is_mount_point(self, cpath):
        return tuple(cpath) in self.mounts

    def path_of_node(self, target):
        """canonical components of a directory node (None if unlinked)"""
        if target is self.root:
            return ()
        stack = [((), self.root)]
        while stack:
            cp, n = stack.pop()
            for name, c in n.children.items():
                if c is target:
                    return cp + (name,)
                if c.kind == 'd':
                    stack.append((cp + (name,), c))
        return None

    # ------------------------------------------------------------ resolution
    def resolve(self, path, follow_last, base=None):
        if not isinstance(path, str):
            if isinstance(path, bytes):
                path = path.decode('utf-8', 'surrogateescape')
            elif hasattr(path, '__fspath__'):
                path = path.__fspath__()
            else:
                raise TypeError('path should be string, bytes or os.PathLike, not %s'
                                % type(path).__name__)
        if path == '':
            raise oserr(errno.ENOENT, path)
        if '\0' in path:
            raise ValueError('embedded null byte')
        if _name_len(path) > PATH_MAX:
            raise oserr(errno.ENAMETOOLONG, path)
        orig = path
        trailing = path.endswith('/')
        todo = split_components(path)
        todo.reverse()  # pop() from the end
        if path.startswith('/'):
            stack = [self.root]
            names = []
        else:
            cw = self.path_of_node(self.cwd_node if base is None else base)
            if cw is None:
                raise oserr(errno.ENOENT, orig)
            names = list(cw)
            stack = [self.root]
            n = self.root
            for c in names:
                n = n.children[c]
                stack.append(n)
        if not todo:
            return Res(None, None, self.root, (), 'root', trailing)
        nlinks = 0
        last_kind = 'norm'
        while todo:
            comp = todo.pop()
            last = not todo
            cur = stack[-1]
            if cur.kind != 'd':
                raise oserr(errno.ENOTDIR, orig)
            if _name_len(comp) > NAME_MAX:
                raise oserr(errno.ENAMETOOLONG, orig)
            if comp == '.':
                last_kind = 'dot'
                continue
            if comp == '..':
                if len(stack) > 1:
                    stack.pop()
                    names.pop()
                last_kind = 'dotdot'
                continue
            last_kind = 'norm'
            child = cur.children.get(comp)
            if child is None:
                if last:
                    return Res(cur, comp, None, tuple(names) + (comp,), 'norm', trailing)
                raise oserr(errno.ENOENT, orig)
            if child.kind == 'l' and (not last or follow_last or trailing):
                nlinks += 1
                if nlinks > SYMLOOP_MAX:
                    raise oserr(errno.ELOOP, orig)
                tgt = child.data
                if tgt == '':
                    raise oserr(errno.ENOENT, orig)
                tcomps = split_components(tgt)
                tcomps.reverse()
                todo.extend(tcomps)
                if tgt.startswith('/'):
                    stack = [self.root]
                    names = []
                if not todo:  # link to '/'
                    last_kind = 'root'
                continue
            stack.append(child)
            names.append(comp)
        node = stack[-1]
        if trailing and node.kind != 'd':
            raise oserr(errno.ENOTDIR, orig)
        if len(stack) == 1:
            return Res(None, None, self.root, (), last_kind if last_kind != 'norm' else 'root', trailing)
        return Res(stack[-2], names[-1], node, tuple(names), last_kind, trailing)

    def _base(self, dir_fd):
        if dir_fd is None:
            return None
        of = self._fd(dir_fd)
        if of.node.kind != 'd':
            raise oserr(errno.ENOTDIR)
        return of.node

    def lookup(self, path, follow=True):
        """Node or None, no tick (oracle / setup use only)"""
        try:
            return self.resolve(path, follow).node
        except OSError:
            return None

    # ---------------------------------------------------------------- ticking
    def _sys(self, name, impl, *args):
        if self.hook is not None:
            return self.hook(self, name, args, impl)
        return self.run_op(name, args, impl)

    def run_op(self, name, args, impl):
        self.nops += 1
        if self.nops > self.max_ops:
            raise StepBudgetExceeded(self.nops)
        self.oplog.append((name,) + tuple(a if isinstance(a, (str, int, bytes, type(None))) else repr(a) for a in args))
        return impl(*args)

    # ---------------------------------------------------------------- queries
    def stat(self, path, follow_symlinks=True, dir_fd=None):
        return self._sys('stat' if follow_symlinks else 'lstat', self._stat, path, follow_symlinks, dir_fd)

    def lstat(self, path, dir_fd=None):
        return self.stat(path, False, dir_fd)

    def _stat(self, path, follow, dir_fd=None):
        r = self.resolve(path, follow, self._base(dir_fd))
        if r.node is None:
            raise oserr(errno.ENOENT, path)
        return StatResult(r.node, self.dev_of(r.cpath), self.uid)

    def fstat(self, fd):
        return self._sys('fstat', self._fstat, fd)

    def _fstat(self, fd):
        of = self._fd(fd)
        return StatResult(of.node, self.dev_of(of.cpath), self.uid)

    def access(self, path, mode, follow_symlinks=True):
        try:
            return self._sys('access', self._access, path, mode, follow_symlinks)
        except OSError:  # access(2) failing for any reason is reported as False by os.access
            return False

    def _access(self, path, mode, follow):
        try:
            r = self.resolve(path, follow)
        except OSError:
            return False
        return r.node is not None

    def listdir(self, path='.'):
        return self._sys('listdir', self._listdir, path)

    def _listdir(self, path):
        r = self.resolve(path, True)
        if r.node is None:
            raise oserr(errno.ENOENT, path)
        if r.node.kind != 'd':
            raise oserr(errno.ENOTDIR, path)
        return list(r.node.children.keys())

    def scandir(self, path='.'):
        return self._sys('scandir', self._scandir, path)

    def _scandir(self, path):
        if isinstance(path, int):
            node = self._fd(path).node
            if node.kind != 'd':
                raise oserr(errno.ENOTDIR)
            return [(name, c.kind, c.ino) for name, c in node.children.items()]
        r = self.resolve(path, True)
        if r.node is None:
            raise oserr(errno.ENOENT, path)
        if r.node.kind != 'd':
            raise oserr(errno.ENOTDIR, path)
        return [(name, c.kind, c.ino) for name, c in r.node.children.items()]

    def readlink(self, path):
        return self._sys('readlink', self._readlink, path)

    def _readlink(self, path):
        r = self.resolve(path, False)
        if r.node is None:
            raise oserr(errno.ENOENT, path)
        if r.node.kind != 'l':
            raise oserr(errno.EINVAL, path)
        return r.node.data

    def getcwd(self):
        cp = self.path_of_node(self.cwd_node)
        if cp is None:
            raise oserr(errno.ENOENT)
        return '/' + '/'.join(cp)

    def chdir(self, path):
        return self._sys('chdir', self._chdir, path)

    def _chdir(self, path):
        r = self.resolve(path, True)
        if r.node is None:
            raise oserr(errno.ENOENT, path)
        if r.node.kind != 'd':
            raise oserr(errno.ENOTDIR, path)
        self.cwd_node = r.node

    # -------------------------------------------------------------- mutations
    def mkdir(self, path, mode=0o777):
        return self._sys('mkdir', self._mkdir, path, mode)

    def _mkdir(self, path, mode):
        r = self.resolve(path, False)
        if r.node is not None:
            raise oserr(errno.EEXIST, path)
        if r.parent is None:
            raise oserr(errno.EEXIST, path)
        r.parent.children[r.name] = self._new('d', mode & 0o1777 & ~self.umask)
        self._touch_dir(r.parent)

    def open(self, path, flags, mode=0o777, dir_fd=None):
        return self._sys('open', self._open, path, flags, mode, dir_fd)

    def _open(self, path, flags, mode, dir_fd=None):
        acc = flags & 3
        follow = not (flags & O_NOFOLLOW) and not ((flags & O_CREAT) and (flags & O_EXCL))
        r = self.resolve(path, follow, self._base(dir_fd))
        node = r.node
        if node is None:
            if not (flags & O_CREAT):
                raise oserr(errno.ENOENT, path)
            if r.trailing:
                raise oserr(errno.EISDIR, path)
            node = self._new('f', mode & 0o777 & ~self.umask, b'')
            r.parent.children[r.name] = node
            self._touch_dir(r.parent)
        else:
            if (flags & O_CREAT) and (flags & O_EXCL):
                raise oserr(errno.EEXIST, path)
            if node.kind == 'l':  # only reachable with O_NOFOLLOW
                raise oserr(errno.ELOOP, path)
            if node.kind == 'd':
                if acc != O_RDONLY or (flags & O_CREAT):
                    raise oserr(errno.EISDIR, path)
            elif flags & O_DIRECTORY:
                raise oserr(errno.ENOTDIR, path)
            if (flags & O_TRUNC) and node.kind == 'f' and acc != O_RDONLY:
                node.data = b''
                self.clock += 1
                node.mtime = self.clock
        fd = self.next_fd
        self.next_fd += 1
        self.fds[fd] = OpenFile(node, r.cpath, flags)
        return fd

    def _fd(self, fd):
        of = self.fds.get(fd)
        if of is None:
            raise oserr(errno.EBADF)
        return of

    def write(self, fd, data):
        return self._sys('write', self._write, fd, data)

    def _write(self, fd, data):
        of = self._fd(fd)
        if (of.flags & 3) == O_RDONLY:
            raise oserr(errno.EBADF)
        if of.node.kind != 'f':
            raise oserr(errno.EBADF)
        data = bytes(data)
        old = of.node.data
        if of.flags & O_APPEND:
            of.pos = len(old)
        if of.pos > len(old):
            old = old + b'\0' * (of.pos - len(old))
        of.node.data = old[:of.pos] + data + old[of.pos + len(data):]
        of.pos += len(data)
        self.clock += 1
        of.node.mtime = self.clock
        return len(data)

    def read(self, fd, n):
        return self._sys('read', self._read, fd, n)

    def _read(self, fd, n):
        of = self._fd(fd)
        if (of.flags & 3) == O_WRONLY:
            raise oserr(errno.EBADF)
        if of.node.kind == 'd':
            raise oserr(errno.EISDIR)
        data = of.node.data
        if n is None or n < 0:
            out = data[of.pos:]
        else:
            out = data[of.pos:of.pos + n]
        of.pos += len(out)
        return out

    def close(self, fd):
        return self._sys('close', self._close, fd)

    def _close(self, fd):
        self._fd(fd)
        del self.fds[fd]

    def unlink(self, path, dir_fd=None):
        return self._sys('unlink', self._unlink, path, dir_fd)

    def _unlink(self, path, dir_fd=None):
        r = self.resolve(_strip_for_rename(path), False, self._base(dir_fd))
        if r.node is None:
            raise oserr(errno.ENOENT, path)
        if path.endswith('/') and r.node.kind != 'd':
            raise oserr(errno.ENOTDIR, path)
        if r.node.kind == 'd':
            raise oserr(errno.EISDIR, path)
        del r.parent.children[r.name]
        self._touch_dir(r.parent)

    def rmdir(self, path, dir_fd=None):
        return self._sys('rmdir', self._rmdir, path, dir_fd)

    def _rmdir(self, path, dir_fd=None):
        r = self.resolve(_strip_for_rename(path), False, self._base(dir_fd))
        if r.node is None:
            raise oserr(errno.ENOENT, path)
        if r.node.kind != 'd':
            raise oserr(errno.ENOTDIR, path)
        if r.last_kind == 'dot':
            raise oserr(errno.EINVAL, path)
        if r.last_kind == 'dotdot':
            raise oserr(errno.ENOTEMPTY, path)
        if r.last_kind == 'root' or self.is_mount_point(r.cpath):
            raise oserr(errno.EBUSY, path)
        if r.node.children:
            raise oserr(errno.ENOTEMPTY, path)
        if r.node is self.cwd_node:
            pass  # allowed on Linux; the process keeps an unlinked cwd
        del r.parent.children[r.name]
        self._touch_dir(r.parent)

    def rename(self, src, dst):
        return self._sys('rename', self._rename, src, dst)

    def _is_ancestor(self, anc, node):
        if anc is node:
            return True
        if anc.kind != 'd':
            return False
        stack = [anc]
        while stack:
            n = stack.pop()
            for c in n.children.values():
                if c is node:
                    return True
                if c.kind == 'd':
                    stack.append(c)
        return False

    def _rename(self, src, dst):
        s = self.resolve(_strip_for_rename(src), False)
        if s.last_kind != 'norm':
            raise oserr(errno.EBUSY, src, dst)
        if s.node is None:
            raise oserr(errno.ENOENT, src, dst)
        if src.endswith('/') and s.node.kind != 'd':
            raise oserr(errno.ENOTDIR, src, dst)
        d = self.resolve(_strip_for_rename(dst), False)
        if d.last_kind != 'norm':
            raise oserr(errno.EBUSY, src, dst)
        # mounts of the two parent directories must coincide
        if self.dev_of(s.cpath[:-1]) != self.dev_of(d.cpath[:-1]):
            raise oserr(errno.EXDEV, src, dst)
        if d.node is s.node:
            return None
        if self.is_mount_point(s.cpath):
            raise oserr(errno.EBUSY, src, dst)
        if dst.endswith('/') and s.node.kind != 'd':
            raise oserr(errno.ENOTDIR, src, dst)
        if s.node.kind == 'd' and self._is_ancestor(s.node, d.parent):
            raise oserr(errno.EINVAL, src, dst)
        if d.node is not None:
            if self._is_ancestor(d.node, s.parent) and d.node.kind == 'd':
                raise oserr(errno.ENOTEMPTY, src, dst)
            if s.node.kind == 'd' and d.node.kind != 'd':
                raise oserr(errno.ENOTDIR, src, dst)
            if s.node.kind != 'd' and d.node.kind == 'd':
                raise oserr(errno.EISDIR, src, dst)
            if self.is_mount_point(d.cpath):
                raise oserr(errno.EBUSY, src, dst)
            if d.node.kind == 'd' and d.node.children:
                raise oserr(errno.ENOTEMPTY, src, dst)
        del s.parent.children[s.name]
        d.parent.children[d.name] = s.node
        self._touch_dir(s.parent)
        self._touch_dir(d.parent)
        return None

    def symlink(self, target, path):
        return self._sys('symlink', self._symlink, target, path)

    def _symlink(self, target, path):
        if not isinstance(target, str):
            target = target.__fspath__() if hasattr(target, '__fspath__') else target.decode('utf-8', 'surrogateescape')
        if target == '':
            raise oserr(errno.ENOENT, target, path)
        r = self.resolve(path, False)
        if r.node is not None or r.parent is None:
            raise oserr(errno.EEXIST, target, path)
        if r.trailing:
            raise oserr(errno.ENOENT, target, path)
        r.parent.children[r.name] = self._new('l', 0o777, target)
        self._touch_dir(r.parent)

    def chmod(self, path, mode, follow_symlinks=True):
        return self._sys('chmod', self._chmod, path, mode, follow_symlinks)

    def _chmod(self, path, mode, follow):
        r = self.resolve(path, follow)
        if r.node is None:
            raise oserr(errno.ENOENT, path)
        if r.node.kind == 'l':
            raise oserr(errno.EOPNOTSUPP, path)
        r.node.mode = mode & 0o7777

    def utime(self, path, ns=None, follow_symlinks=True):
        return self._sys('utime', self._utime, path, ns, follow_symlinks)

    def _utime(self, path, ns, follow):
        r = self.resolve(path, follow)
        if r.node is None:
            raise oserr(errno.ENOENT, path)
        if ns is None:
            self.clock += 1
            r.node.mtime = self.clock
        else:
            r.node.mtime = ns[1]

    # ------------------------------------------------------------ world setup
    def add(self, path, kind, mode=None, data=None, mtime=None):
        """direct insertion, no ticks; creates missing parents (0755)"""
        comps = split_components(path)
        cur = self.root
        for c in comps[:-1]:
            nxt = cur.children.get(c)
            if nxt is None:
                nxt = self._new('d', 0o755)
                cur.children[c] = nxt
            cur = nxt
        if mode is None:
            mode = {'d': 0o755, 'f': 0o644, 'l': 0o777}[kind]
        if kind == 'f' and data is None:
            data = b''
        if kind == 'f' and isinstance(data, str):
            data = data.encode('utf-8', 'surrogateescape')
        if not comps:
            self.root.mode = mode
            return self.root
        existing = cur.children.get(comps[-1])
        if existing is not None and kind == 'd' and existing.kind == 'd':
            existing.mode = mode
            if mtime is not None:
                existing.mtime = mtime
            return existing
        n = self._new(kind, mode, data, mtime)
        cur.children[comps[-1]] = n
        return n

    def set_cwd(self, path):
        n = self.lookup(path, True)
        if n is None or n.kind != 'd':
            raise ValueError('cwd %r is not a directory of the model' % (path,))
        self.cwd_node = n

    # --------------------------------------------------------------- snapshot
    def snap(self, path='/', follow=False):
        n = self.lookup(path, follow)
        return None if n is None else snap_node(n)

    def clone(self):
        import copy
        hook = self.hook
        self.hook = None
        try:
            c = copy.deepcopy(self)
        finally:
            self.hook = hook
        return c


def _strip_for_rename(p):
    # trailing slashes are examined by the callers; resolve() would follow a
    # final symlink when the path ends with '/', rename(2) must not.
    q = p.rstrip('/')
    return q if q else p


def norm_mtime(t):
    return 'fresh' if t >= FRESH_CLOCK_BASE // 2 else t


def snap_node(n):
    """hashable recursive snapshot: kind, mode, content / target, mtime tag, children"""
    if n.kind == 'd':
        return ('d', n.mode, tuple(sorted((name, snap_node(c)) for name, c in n.children.items())))
    if n.kind == 'f':
        return ('f', n.mode, n.data, norm_mtime(n.mtime))
    return ('l', n.data, norm_mtime(n.mtime))

"""Scenario execution on the model + backend-agnostic oracle helpers.

A scenario is (world, steps); steps are command specs (vf.commands.C), or
{'snap': path}.  ``run_model`` returns the same shapes vf.realfs returns, so
an oracle written over (world, steps, results) judges both backends.
"""
import urllib.parse

from . import commands, rt, world as W
from .posix_model import Crash, Suspend, StepBudgetExceeded, ModelUnsupported, oserr

HOME = '/h'
UID = 1000
NOW = '2020-01-02T03:04:05'


def env(extra=None, home=HOME):
    e = {}
    if home is not None:
        e['HOME'] = home
    if extra:
        e.update(extra)
    return e


class CrashHook(object):
    """kill the process before its k-th system call (sticky: nothing runs afterwards)"""

    def __init__(self, k):
        self.k = k
        self.crashed = False

    def __call__(self, model, name, args, impl):
        if self.crashed or model.nops == self.k:
            self.crashed = True
            raise Crash()
        return model.run_op(name, args, impl)


class Interrupt(KeyboardInterrupt):
    """SIGINT delivered to the modelled process: unlike Crash the interpreter keeps running, so every
    ``finally`` / ``except`` clean-up handler of trash-cli executes (and makes system calls) while it unwinds"""


class InterruptHook(object):
    """deliver one KeyboardInterrupt: instead of the k-th system call (after=False: the signal arrived just before
    it) or right after the k-th system call has returned successfully (after=True)"""

    def __init__(self, k, after):
        self.k = k
        self.after = after
        self.fired = False

    def __call__(self, model, name, args, impl):
        if not self.fired and model.nops == self.k:
            self.fired = True
            if self.after:
                model.run_op(name, args, impl)  # an OSError of the call itself wins: no interrupt then
            raise Interrupt()
        return model.run_op(name, args, impl)


class SignalHook(object):
    """deliver SIGTERM / SIGHUP (signum) instead of the k-th system call or right after it has returned: if the command
    installed a Python handler for it (recorded by commands._VirtualSignals) the handler runs at that point - whatever
    it raises propagates from there, and if it returns the run goes on; SIG_IGN: the run goes on; otherwise the
    default action kills the process (as CrashHook)"""

    def __init__(self, k, signum, after):
        self.k, self.signum, self.after = k, signum, after
        self.fired = False
        self.killed = False
        self.handled = None

    def __call__(self, model, name, args, impl):
        import signal
        if self.killed:
            raise Crash()
        if not self.fired and model.nops == self.k:
            self.fired = True
            res = None
            if self.after:
                res = model.run_op(name, args, impl)
            h = commands.SIGNAL_HANDLERS.get(self.signum, signal.SIG_DFL)
            if h == signal.SIG_IGN:
                self.handled = 'ignored'
            elif callable(h):
                self.handled = 'handler'
                h(self.signum, None)
            else:
                self.killed = True
                self.handled = 'default'
                raise Crash()
            if self.after:
                return res
        return model.run_op(name, args, impl)


class FaultHook(object):
    """fail the k-th system call with errno e (optionally a second one, optionally
    persistent: every later call of the same kind under the same directory fails too)"""

    def __init__(self, faults, persistent=False):
        self.faults = dict(faults)  # op index -> errno
        self.persistent = persistent
        self.sticky = []  # (opname, dirname, errno)
        self.injected = []

    def __call__(self, model, name, args, impl):
        k = model.nops
        path = args[0] if args and isinstance(args[0], str) else None
        if name == 'rename' and len(args) > 1:
            path = args[1]
        if name == 'symlink' and len(args) > 1:
            path = args[1]
        if self.persistent and path is not None:
            import posixpath
            for (n, dname, e) in self.sticky:
                if n == name and posixpath.dirname(path) == dname:
                    model.nops += 1
                    model.oplog.append((name, path, 'FAULT', e))
                    self.injected.append((k, name, e))
                    raise oserr(e, path)
        if k in self.faults:
            e = self.faults[k]
            model.nops += 1
            model.oplog.append((name, path, 'FAULT', e))
            self.injected.append((k, name, e))
            if self.persistent and path is not None:
                import posixpath
                self.sticky.append((name, posixpath.dirname(path), e))
            raise oserr(e, path)
        return model.run_op(name, args, impl)


class PathFaultHook(object):
    """every system call ``opname`` whose path starts with ``prefix`` fails with ``errno_`` (a read-only /
    full / permission-less directory)"""

    def __init__(self, opname, prefix, errno_):
        self.opname, self.prefix, self.errno_ = opname, prefix, errno_
        self.injected = []

    def __call__(self, model, name, args, impl):
        path = args[0] if args and isinstance(args[0], str) else None
        if name == 'rename' and len(args) > 1:
            path = args[1]
        if name == self.opname and path is not None and path.startswith(self.prefix):
            self.injected.append((model.nops, name, self.errno_))
            model.nops += 1
            model.oplog.append((name, path, 'FAULT', self.errno_))
            raise oserr(self.errno_, path)
        return model.run_op(name, args, impl)


class DirFaultHook(object):
    """one cause, many faulted calls: a directory that cannot be modified (no write permission, immutable,
    read-only or full file system).  Every system call that would add, remove or rename an entry of the directory
    ``dpath`` -- or, with ``volume``, of any directory on that volume -- fails with ``errno_``"""

    def __init__(self, dpath=None, errno_=13, volume=None):
        self.dpath, self.errno_, self.volume = dpath, errno_, volume
        self.injected = []

    def _parents(self, model, name, args):
        from .posix_model import _strip_for_rename
        import os as _os
        out = []

        def parent(path, dir_fd=None):
            try:
                r = model.resolve(_strip_for_rename(path), False, model._base(dir_fd))
            except OSError:
                return None
            return r
        if name == 'mkdir':
            out.append(parent(args[0]))
        elif name in ('unlink', 'rmdir'):
            out.append(parent(args[0], args[1] if len(args) > 1 else None))
        elif name == 'symlink':
            out.append(parent(args[1]))
        elif name == 'rename':
            a, b = parent(args[0]), parent(args[1])
            # (Linux answers EXDEV before it looks at permissions or at a read-only mount)
            if a is not None and b is not None and model.dev_of(tuple(a.cpath[:-1])) != model.dev_of(tuple(b.cpath[:-1])):
                return []
            out += [a, b]
        elif name == 'open' and (args[1] & _os.O_CREAT):
            r = parent(args[0], args[3] if len(args) > 3 else None)
            if r is not None and r.node is None:
                out.append(r)
        return [r for r in out if r is not None and r.parent is not None]

    def __call__(self, model, name, args, impl):
        if name in ('mkdir', 'unlink', 'rmdir', 'symlink', 'rename', 'open'):
            hit = False
            for r in self._parents(model, name, args):
                if self.volume is not None:
                    if model.dev_of(tuple(r.cpath[:-1])) == model.dev_of(tuple(model.resolve(self.volume, True).cpath)):
                        hit = True
                else:
                    try:
                        d = model.resolve(self.dpath, True).node
                    except OSError:
                        d = None
                    if d is not None and r.parent is d:
                        hit = True
            if hit:
                self.injected.append((model.nops, name, self.errno_))
                model.nops += 1
                model.oplog.append((name, repr(args)[:80], 'FAULT', self.errno_))
                if model.nops > model.max_ops:
                    raise StepBudgetExceeded(model.nops)
                raise oserr(self.errno_, args[0] if isinstance(args[0], str) else None)
        return model.run_op(name, args, impl)


class OneShotFault(object):
    """fail the n-th system call named ``opname`` that satisfies ``pred(args)`` with ``errno_``, once"""

    def __init__(self, opname, errno_, pred=None, nth=0):
        self.opname, self.errno_, self.pred, self.nth = opname, errno_, pred, nth
        self.seen = 0
        self.injected = []

    def __call__(self, model, name, args, impl):
        if name == self.opname and not self.injected and (self.pred is None or self.pred(args)):
            if self.seen == self.nth:
                self.injected.append((model.nops, name, self.errno_))
                model.nops += 1
                model.oplog.append((name, repr(args), 'FAULT', self.errno_))
                raise oserr(self.errno_, args[0] if args and isinstance(args[0], str) else None)
            self.seen += 1
        return model.run_op(name, args, impl)


KNOWN_ENV = {'HOME', 'XDG_DATA_HOME', 'TRASH_VOLUMES', 'TRASH_PUT_FAKE_UID_FOR_TESTING', 'TRASH_ENABLE_HOME_FALLBACK', 'TRASH_DATE',
             'COLUMNS', 'LINES', 'TERM', 'LANG', 'LC_ALL', 'LC_MESSAGES', 'LANGUAGE', 'PYTHONIOENCODING', 'TZ'}


def consulted_unknown_env(world, step, uid=1000):
    """names of environment variables, other than the documented ones, that the command looks up when it runs this
    scenario (probed on a throw-away copy of the world): a harness then repeats the case with each of them set to a
    value that must not change the property's verdict, e.g. '0'"""
    from . import facade
    facade.ENV_LOOKUPS.clear()
    try:
        run_model(world, [step], uid=uid)
    except BaseException:
        pass
    return sorted(k for k in facade.ENV_LOOKUPS if k not in KNOWN_ENV)


BACKEND = 'model'  # 'real': run_model() executes the scenario on the real file system instead (replay of counterexamples)


class RealBackendNotApplicable(Exception):
    pass


def run_model(world, steps, hook=None, uid=UID, model=None, max_ops=None):
    if BACKEND == 'real':
        if hook is not None or model is not None or any(('hook' in st) for st in steps if isinstance(st, dict)):
            raise RealBackendNotApplicable('the scenario needs a crash/fault/scheduling hook or a hand-built model state')
        res = run_real(world, steps)
        if res is None:
            raise RealBackendNotApplicable('real file system backend unavailable here')
        return None, res
    """-> (model, results); a step killed by Crash yields {'crashed': True} and ends the run"""
    m = model if model is not None else W.build_model(world, uid=uid)
    if max_ops is not None:
        m.max_ops = max_ops
    results = []
    for st in steps:
        if 'cmd' in st:
            h = st.get('hook') if 'hook' in st else hook
            m.hook = h
            try:
                r = commands.run_on_model(m, st).as_dict()
            except Crash:
                r = {'crashed': True, 'out': '', 'err': '', 'exit': None, 'exc': None}
            except Interrupt:
                # the KeyboardInterrupt left main(): the interpreter prints a traceback and dies of SIGINT
                r = {'interrupted': True, 'out': '', 'err': '', 'exit': 130, 'exc': None}
            except StepBudgetExceeded:
                r = {'nonterminating': True, 'out': '', 'err': '', 'exit': None, 'exc': None}
            finally:
                m.hook = None
            r['ops'] = m.nops
            results.append(r)
            if r.get('crashed') or r.get('nonterminating'):
                if not st.get('continue_after_crash'):
                    break
        elif 'snap' in st:
            results.append(m.snap(st['snap']))
        elif 'chdir' in st:
            m.set_cwd(st['chdir'])
            results.append(None)
    return m, results


def run_real(world, steps):
    """the same scenario on the REAL file system (chroot + tmpfs mounts, real os/shutil); same result shapes as
    run_model; returns None when the real backend is unavailable"""
    from . import realfs
    if not realfs.available():
        return None
    r = realfs.run_batch([{'world': world, 'steps': steps}])[0]
    if r['error']:
        raise RuntimeError(r['error'])
    out = []
    for st, x in zip(steps, r['steps']):
        out.append(W.unjsonable(x) if 'snap' in st else x)
    return out


# ------------------------------------------------------------------ snapshots
def sub(snap, path):
    """sub-snapshot at absolute path (no symlink following) or None"""
    cur = snap
    for c in [x for x in path.split('/') if x]:
        if cur is None or cur[0] != 'd':
            return None
        nxt = None
        for name, child in cur[2]:
            if name == c:
                nxt = child
                break
        cur = nxt
    return cur


def children(snap, path):
    s = sub(snap, path)
    if s is None or s[0] != 'd':
        return {}
    return dict(s[2])


def find_equal(snap, target, prefix=''):
    out = []
    if snap == target:
        out.append(prefix or '/')
    if snap is not None and snap[0] == 'd':
        for name, c in snap[2]:
            out.extend(find_equal(c, target, prefix + '/' + name))
    return out


def delta(before, after):
    """(removed, added, changed) as {path: leaf}; directories are leaves ('d', mode)"""
    fb, fa = W.flatten(before), W.flatten(after)
    removed = {k: v for k, v in fb.items() if k not in fa}
    added = {k: v for k, v in fa.items() if k not in fb}
    changed = {k: (fb[k], fa[k]) for k in fb if k in fa and fb[k] != fa[k]}
    return removed, added, changed


def is_under(path, root):
    return path == root or path.startswith(root.rstrip('/') + '/')


# ------------------------------------------------------ independent info parser
def spec_parse_info(data):
    """Independent reading of a .trashinfo per the FreeDesktop spec: returns
    (ok, path_value_unescaped_bytes_as_str, date_text).  First Path / DeletionDate wins."""
    try:
        text = data.decode('utf-8')
    except UnicodeDecodeError:
        return False, None, None
    lines = text.split('\n')
    if not lines or lines[0] != '[Trash Info]':
        return False, None, None
    path = date = None
    for ln in lines[1:]:
        if path is None and ln.startswith('Path='):
            path = ln[5:]
        if date is None and ln.startswith('DeletionDate='):
            date = ln[13:]
    if path is None or date is None or not text.endswith('\n'):
        return False, path, date
    return True, spec_unescape(path), date


def spec_unescape(q):
    """%HH -> byte, everything else literal; bytes read as UTF-8 (surrogateescape keeps
    undecodable bytes distinguishable)"""
    out = bytearray()
    i = 0
    b = q.encode('utf-8', 'surrogateescape')
    hexd = b'0123456789abcdefABCDEF'
    while i < len(b):
        if b[i] == 0x25 and i + 2 < len(b) and b[i + 1] in hexd and b[i + 2] in hexd:
            out.append(int(b[i + 1:i + 3].decode(), 16))
            i += 3
        else:
            out.append(b[i])
            i += 1
    return bytes(out).decode('utf-8', 'surrogateescape')


def trash_entries(snap, trash_dir):
    """{name: (info bytes|None, payload snap|None)} of one trash directory (an info/ or files/ that is a
    symbolic link to a directory is followed, as the commands do)"""
    out = {}

    def real(p):
        node = sub(snap, p)
        if node is not None and node[0] == 'l' and node[1].startswith('/'):
            return node[1]
        return p
    idir, fdir = real(trash_dir + '/info'), real(trash_dir + '/files')
    for n, s in children(snap, idir).items():
        if n.endswith('.trashinfo'):
            out.setdefault(n[:-len('.trashinfo')], [None, None])[0] = s[2] if s[0] == 'f' else s
    for n, s in children(snap, fdir).items():
        out.setdefault(n, [None, None])[1] = s
    return {k: tuple(v) for k, v in out.items()}

"""Verification framework for trash-cli (solver-based checking of the real code)."""

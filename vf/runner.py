"""Obligation runner and verdict protocol.

An *obligation* is one solver task:
  CH  a CrossHair condition (PEP-316 contract on a harness function whose body
      calls the real trash-cli code); verdicts: confirmed over all paths /
      counterexample / inconclusive
  ZQ  a function that builds z3 queries from /repo's current source and
      returns {'verdict': 'unsat'|'sat'|'unknown', ...}

Exit codes of a check: 0 held on everything explored, 1 violation (line
"VIOLATION property=<id> replay=<path>"), 3 inconclusive / harness error.
"""
import ast
import collections
import fnmatch
import hashlib
import importlib
import json
import multiprocessing
import os
import sys
import time
import traceback

HERE = os.path.dirname(os.path.dirname(os.path.abspath(__file__)))


class CH(object):
    kind = 'crosshair'

    def __init__(self, name, module, fn, timeout=60, partitions=None, twin=True, engine='K',
                 encodes=(), bounds='', outside='', stubs=(), per_path_timeout=None, regime='traced'):
        self.name, self.module, self.fn = name, module, fn
        self.timeout = timeout
        self.partitions = partitions or [None]
        self.twin = twin
        self.engine = engine
        self.encodes = list(encodes)
        self.bounds, self.outside = bounds, outside
        self.stubs = list(stubs)
        self.per_path_timeout = per_path_timeout
        self.regime = regime


class ZQ(object):
    kind = 'z3'

    def __init__(self, name, module, fn, args=(), timeout=120, engine='Z', encodes=(), bounds='', outside='', stubs=()):
        self.name, self.module, self.fn = name, module, fn
        self.args = list(args)
        self.timeout = timeout
        self.partitions = [None]
        self.twin = False
        self.engine = engine
        self.encodes = list(encodes)
        self.bounds, self.outside = bounds, outside
        self.stubs = list(stubs)
        self.regime = 'term-level'


# ----------------------------------------------------------------- the workers
def _protect_real_fs():
    if os.environ.get('VERIF_NO_RO'):
        return 'disabled'
    try:
        from . import realfs
        realfs.make_root_readonly()
        return 'root remounted read-only in a private mount namespace'
    except Exception as e:  # not permitted here: best effort
        return 'unavailable (%s)' % (e,)


def parse_counterexample(message):
    """'... when calling f(a=1, b='x') (which returns ..)' -> {'a': 1, 'b': 'x'}"""
    marker = 'when calling '
    i = message.find(marker)
    if i < 0:
        return None
    sub = message[i + len(marker):]
    for j, ch in enumerate(sub):
        if ch != ')':
            continue
        try:
            tree = ast.parse(sub[:j + 1], mode='eval')
        except SyntaxError:
            continue
        if isinstance(tree.body, ast.Call):
            try:
                kw = {k.arg: ast.literal_eval(k.value) for k in tree.body.keywords}
                pos = [ast.literal_eval(a) for a in tree.body.args]
            except Exception:
                return None
            return {'kwargs': kw, 'args': pos}
    return None


def _worker_ch(task, conn):
    t0 = time.time()
    res = {'name': task['name'], 'partition': task['partition'], 'twin': task['twin'],
           'verdict': 'inconclusive', 'detail': '', 'paths': 0, 'cases': 0, 'samples': [],
           'cex': None, 'message': ''}
    try:
        res['fs_guard'] = _protect_real_fs()
        from . import chpatch, rt
        if not chpatch.apply():
            res['detail'] = 'crosshair patch: ' + chpatch.STATUS
            conn.send(res)
            return
        from crosshair.core_and_libs import analyze_function
        from crosshair.options import AnalysisOptionSet
        from crosshair.statespace import MessageType
        mod = importlib.import_module(task['module'])
        rt.reset()
        rt.TWIN = task['twin']
        rt.EXCLUDED.update(task['excluded'])
        mod.PARTITION = task['partition']
        fn = getattr(mod, task['fn'])
        stats = collections.Counter()
        kw = dict(per_condition_timeout=task['timeout'], report_all=True, stats=stats)
        if task.get('per_path_timeout'):
            kw['per_path_timeout'] = task['per_path_timeout']
        checkables = analyze_function(fn, AnalysisOptionSet(**kw))
        msgs = []
        for c in checkables:
            msgs.extend(c.analyze())
        res['paths'] = int(stats.get('num_paths', 0))
        res['cases'] = len(rt.CASES)
        res['samples'] = list(rt.SAMPLES)
        res['known_hits'] = dict(rt.HITS)
        if not checkables:
            res['detail'] = 'no contract found on %s' % task['fn']
        states = [m.state for m in msgs]
        res['message'] = ' | '.join('%s: %s' % (m.state.name, m.message) for m in msgs)
        bad = [m for m in msgs if m.state in (MessageType.POST_FAIL, MessageType.EXEC_ERR, MessageType.POST_ERR)]
        if bad:
            res['verdict'] = 'refuted'
            res['cex'] = parse_counterexample(bad[0].message)
            res['detail'] = bad[0].message
        elif states and all(s == MessageType.CONFIRMED for s in states):
            res['verdict'] = 'confirmed'
        else:
            res['verdict'] = 'inconclusive'
            res['detail'] = res['message'] or 'no message'
    except BaseException:
        res['verdict'] = 'inconclusive'
        res['detail'] = 'worker exception: ' + traceback.format_exc()[-1500:]
    res['wall_s'] = round(time.time() - t0, 2)
    conn.send(res)


def _worker_zq(task, conn):
    t0 = time.time()
    res = {'name': task['name'], 'partition': None, 'twin': False, 'verdict': 'inconclusive',
           'detail': '', 'paths': 0, 'cases': 0, 'samples': [], 'cex': None, 'message': ''}
    try:
        mod = importlib.import_module(task['module'])
        fn = getattr(mod, task['fn'])
        out = fn(*task.get('args', []))
        v = out.get('verdict')
        res['queries'] = out.get('queries', 1)
        res['paths'] = res['queries']
        res['solver_s'] = out.get('solver_s')
        res['samples'] = out.get('samples', [])
        res['message'] = out.get('message', '')
        res['extra'] = out.get('extra')
        if v == 'unsat':
            res['verdict'] = 'confirmed'
        elif v == 'sat':
            res['verdict'] = 'refuted'
            res['cex'] = {'kwargs': out.get('model', {}), 'args': []}
            res['detail'] = out.get('message', 'sat')
        else:
            res['detail'] = 'solver answered %r: %s' % (v, out.get('message', ''))
    except BaseException:
        res['detail'] = 'worker exception: ' + traceback.format_exc()[-1500:]
    res['wall_s'] = round(time.time() - t0, 2)
    conn.send(res)


def _spawn(task):
    parent, child = multiprocessing.Pipe(False)
    target = _worker_ch if task['kind'] == 'crosshair' else _worker_zq
    p = multiprocessing.Process(target=target, args=(task, child), daemon=True)
    p.start()
    child.close()
    return p, parent


def run_tasks(tasks, jobs=None):
    """run tasks with a hard wall-clock limit each; returns results in task order"""
    jobs = jobs or min(16, os.cpu_count() or 4)
    pending = list(enumerate(tasks))
    running = {}
    results = [None] * len(tasks)
    while pending or running:
        while pending and len(running) < jobs:
            i, t = pending.pop(0)
            p, conn = _spawn(t)
            running[i] = (p, conn, time.time(), t)
        time.sleep(0.05)
        for i in list(running):
            p, conn, t0, t = running[i]
            limit = t['timeout'] * 2 + 60
            if conn.poll():
                try:
                    results[i] = conn.recv()
                except EOFError:
                    results[i] = _dead(t, 'worker died')
                p.join(5)
                del running[i]
            elif not p.is_alive():
                results[i] = _dead(t, 'worker died (exit %s)' % p.exitcode)
                del running[i]
            elif time.time() - t0 > limit:
                p.kill()
                results[i] = _dead(t, 'hard wall-clock limit %ds exceeded' % limit)
                del running[i]
    return results


def _dead(t, why):
    return {'name': t['name'], 'partition': t.get('partition'), 'twin': t.get('twin', False),
            'verdict': 'inconclusive', 'detail': why, 'paths': 0, 'cases': 0, 'samples': [], 'cex': None,
            'message': why, 'wall_s': 0}


# --------------------------------------------------------------- known findings
def load_known(prop):
    path = os.path.join(HERE, 'known_findings.json')
    if not os.path.exists(path):
        return []
    with open(path) as f:
        data = json.load(f)
    return [k for k in data.get('findings', []) if k['property'] == prop and k.get('status', 'open') == 'open']


def match_known(known, key):
    for k in known:
        if fnmatch.fnmatchcase(key, k['key']):
            return k
    return None


# ------------------------------------------------------------------- the driver
def replay_concretely(ob, cex, excluded):
    """re-run the harness function outside the solver on the counterexample"""
    from . import rt
    mod = importlib.import_module(ob.module)
    rt.reset()
    rt.EXCLUDED.update(excluded)
    fn = getattr(mod, ob.fn)
    try:
        out = fn(*cex.get('args', []), **cex.get('kwargs', {}))
    except Exception as e:
        return 'EXC:%s :: %s' % (type(e).__name__, e)
    return out


def real_fs_replay(ob, cex, excluded):
    from . import scen
    scen.BACKEND = 'real'
    try:
        reason = replay_concretely(ob, cex, excluded)
    finally:
        scen.BACKEND = 'model'
    if reason.startswith('EXC:RealBackendNotApplicable'):
        return 'not replayable on the real file system: ' + reason.split(' :: ', 1)[-1]
    if reason:
        return 'REPRODUCED on the real file system: ' + reason[:600]
    return 'NOT reproduced on the real file system (model-only counterexample: check the stub)'


def run_check(prop, tier, module_name, seed=0):
    t_start = time.time()
    hmod = importlib.import_module(module_name)
    obs = hmod.obligations(tier)
    only = os.environ.get('VERIF_ONLY')  # developer aid: run a subset of the obligations; no evidence is written then
    if only:
        obs = [o for o in obs if only in o.name]
    known = load_known(prop)
    excluded = set(k['key'] for k in known)
    hit_patterns = {}
    violations = []
    known_hits = []
    inconclusive = []
    ob_records = []
    total_paths = 0
    total_cases = 0
    samples = []
    solver_cpu = 0.0

    def mk(ob, part, twin):
        t = {'kind': ob.kind, 'name': ob.name, 'module': ob.module, 'fn': ob.fn, 'timeout': ob.timeout,
             'partition': part, 'twin': twin, 'excluded': sorted(excluded)}
        if ob.kind == 'crosshair':
            t['per_path_timeout'] = ob.per_path_timeout
            if twin:
                t['timeout'] = min(ob.timeout, 60)
        else:
            t['args'] = ob.args
        return t

    todo = []
    for ob in obs:
        for part in ob.partitions:
            todo.append((ob, part, False))
            if ob.twin:
                todo.append((ob, part, True))
    rounds = 0
    agg = {}
    while todo and rounds < 25:
        rounds += 1
        results = run_tasks([mk(*t) for t in todo])
        again = []
        for (ob, part, twin), r in zip(todo, results):
            rec = agg.setdefault(ob.name, {'name': ob.name, 'engine': ob.engine, 'regime': ob.regime,
                                           'functions_encoded': ob.encodes, 'bounds': ob.bounds,
                                           'outside_bounds': ob.outside, 'stubs': ob.stubs, 'kind': ob.kind,
                                           'partitions': [], 'twin': []})
            if twin:
                okt = r['verdict'] == 'refuted' and 'twin-reached' in (r['detail'] or '')
                rec['twin'].append({'partition': part, 'reached': okt, 'wall_s': r.get('wall_s')})
                if not okt:
                    inconclusive.append('%s[%s] reachability twin not refuted (vacuous harness?): %s'
                                        % (ob.name, part, (r['detail'] or r['message'])[:300]))
                continue
            for pat, why in (r.get('known_hits') or {}).items():
                hit_patterns.setdefault(pat, why)
            total_paths += r.get('paths', 0)
            total_cases += r.get('cases', 0)
            solver_cpu += r.get('wall_s', 0) or 0
            for s in r.get('samples', []):
                if len(samples) < 12:
                    samples.append({'obligation': ob.name, 'case': s})
            rec['partitions'].append({'partition': part, 'verdict': r['verdict'], 'paths': r.get('paths', 0),
                                      'distinct_cases': r.get('cases', 0), 'wall_s': r.get('wall_s'),
                                      'note': (r['detail'] or '')[:400] if r['verdict'] != 'confirmed' else '',
                                      'fs_guard': r.get('fs_guard'), 'extra': r.get('extra')})
            if r['verdict'] == 'confirmed':
                continue
            if r['verdict'] == 'inconclusive':
                inconclusive.append('%s[%s]: %s' % (ob.name, part, (r['detail'] or '')[:600]))
                continue
            # refuted: replay before believing it
            cex = r.get('cex')
            if ob.kind == 'z3':
                rep = getattr(importlib.import_module(ob.module), ob.fn + '_replay', None)
                reason = rep(cex['kwargs']) if rep else ''
                if rep is None:
                    inconclusive.append('%s: sat but no replay function' % ob.name)
                    continue
            else:
                if cex is None:
                    inconclusive.append('%s[%s]: counterexample not parseable: %s' % (ob.name, part, r['detail'][:300]))
                    continue
                reason = replay_concretely(ob, cex, excluded)
            if not reason:
                inconclusive.append('%s[%s]: counterexample %r did not reproduce concretely (stub/harness error): %s'
                                    % (ob.name, part, cex, r['detail'][:300]))
                continue
            key = reason.split(' :: ')[0]
            if key.startswith('HARNESS:'):
                # the harness itself says it does not apply to this code (e.g. the library call it cuts with a recorder is
                # no longer made where it used to be): it cannot decide - neither a pass nor a violation
                inconclusive.append('%s[%s]: %s' % (ob.name, part, reason[:400]))
                continue
            if key not in [v['key'] for v in violations]:
                violations.append({'obligation': ob.name, 'partition': part, 'counterexample': cex,
                                   'reason': reason, 'key': key, 'solver_message': r['detail'][:1000]})
        todo = again
        if violations:
            break
    if todo and not violations:
        inconclusive.append('known-finding exclusion loop did not converge')

    # second replay: the same counterexample with the real os/shutil on a real (tmpfs, chroot-ed) file system,
    # for every harness whose scenario needs no crash/fault/scheduling hook
    for v in violations:
        ob = [o for o in obs if o.name == v['obligation']][0]
        if ob.kind != 'crosshair':
            continue
        v['real_fs'] = real_fs_replay(ob, v['counterexample'], excluded)

    for k in known:
        if k['key'] in hit_patterns:
            known_hits.append((k, k['key'], hit_patterns[k['key']]))
    wall = round(time.time() - t_start, 2)
    ob_records = list(agg.values())
    n_ob = sum(len(o['partitions']) for o in ob_records)
    n_ok = sum(1 for o in ob_records for p in o['partitions'] if p['verdict'] == 'confirmed')
    meta = getattr(hmod, 'META', {})
    level = meta.get('level', 'other')
    cov = {
        'evaluations': int(total_paths),
        'distinct_nontrivial': int(total_cases if total_cases else total_paths),
        'rule': meta.get('rule', 'paths explored by the solver; a case is distinct when its concrete selector/'
                                 'argument valuation differs; every case runs real trash-cli code to an oracle'),
        'samples': samples or [{'note': 'no sample recorded'}],
        'obligations': n_ob,
        'discharged': n_ok,
        'explanation': meta.get('explanation', ''),
        'obligations_detail': ob_records,
        'solver_wall_s_total': round(solver_cpu, 2),
        'known_findings_hit': [{'pattern': k[1], 'first_hit': k[2][:300]} for k in known_hits],
        'inconclusive': inconclusive,
        'exhaustive': False,
    }
    if level == 'model_checking':
        cov['states'] = max(1, int(total_cases if total_cases else total_paths))
        cov['transitions'] = max(1, int(total_paths))
        cov['traces_validated_against_impl'] = int(total_paths)
    ev = {'property_id': prop, 'tier': tier, 'seed': seed, 'level': level, 'coverage': cov,
          'assumptions': meta.get('assumptions', []), 'wall_s': wall, 'violations': len(violations)}
    os.makedirs(os.path.join(HERE, 'evidence'), exist_ok=True)
    # evidence/<id>.json describes the LAST run of the property (either tier); a copy per tier is kept next to it in
    # evidence_by_tier/ so that a later quick run does not erase what the last thorough run covered.
    # (VERIF_KEEP_MAIN_EVIDENCE=1: developer aid for a thorough sweep running beside a quick one - only the copy is written)
    if only or not os.environ.get('VERIF_KEEP_MAIN_EVIDENCE'):
        with open(os.path.join(HERE, 'evidence', prop + ('.partial' if only else '') + '.json'), 'w') as f:
            json.dump(ev, f, indent=1, default=repr)
    if not only:
        os.makedirs(os.path.join(HERE, 'evidence_by_tier', tier), exist_ok=True)
        with open(os.path.join(HERE, 'evidence_by_tier', tier, prop + '.json'), 'w') as f:
            json.dump(ev, f, indent=1, default=repr)

    for k, pat, why in known_hits:
        print('KNOWN-FINDING: property=%s %s [%s]' % (prop, k['what'], why.split(' :: ')[0]))
    for o in ob_records:
        for p in o['partitions']:
            print('  %-34s %-12s paths=%-6s cases=%-6s %.1fs %s' % (
                o['name'] + ('' if p['partition'] is None else str(p['partition'])), p['verdict'], p['paths'],
                p['distinct_cases'], p['wall_s'] or 0, p['note'][:150].replace('\n', ' ')))
    if violations:
        os.makedirs(os.path.join(HERE, 'replays'), exist_ok=True)
        for v in violations:
            h = hashlib.sha1(json.dumps(v, sort_keys=True, default=repr).encode()).hexdigest()[:10]
            path = os.path.join(HERE, 'replays', '%s-%s.json' % (prop, h))
            v['replay_cmd'] = './check %s --replay %s' % (prop, path)
            v['module'] = module_name
            with open(path, 'w') as f:
                json.dump(v, f, indent=1, default=repr)
            print('VIOLATION property=%s replay=%s' % (prop, path))
            print('  ' + v['reason'][:800])
            if v.get('real_fs'):
                print('  ' + v['real_fs'][:300])
        return 1
    if inconclusive:
        for i in inconclusive:
            print('INCONCLUSIVE: ' + i.replace('\n', ' ')[:800])
        return 3
    print('OK property=%s tier=%s obligations=%d/%d paths=%d wall=%.1fs' % (prop, tier, n_ok, n_ob, total_paths, wall))
    return 0


def replay_file(prop, path):
    with open(path) as f:
        v = json.load(f)
    hmod = importlib.import_module(v['module'])
    ob = [o for o in hmod.obligations('thorough') + hmod.obligations('quick') if o.name == v['obligation']][0]
    if ob.kind == 'z3':
        reason = getattr(hmod, ob.fn + '_replay')(v['counterexample']['kwargs'])
    else:
        reason = replay_concretely(ob, v['counterexample'], set())
    if reason:
        print('VIOLATION property=%s replay=%s' % (prop, path))
        print('  ' + reason)
        return 1
    print('replay does not fail on the current tree')
    return 0

"""Run-time helpers shared by the harness functions."""
import contextlib

TWIN = False  # reachability twin: a harness that reaches its end reports it
EXCLUDED = set()  # fnmatch patterns of the known findings (known_findings.json, status open)
HITS = {}  # pattern -> first concrete key/detail that matched in this run
PATHS = [0]  # executions of harness bodies == paths explored by CrossHair
SAMPLES = []  # a few explored cases, written into the evidence file
CASES = set()  # distinct concrete cases seen (selector harnesses)
MAX_SAMPLES = 6


def reset():
    global TWIN
    TWIN = False
    EXCLUDED.clear()
    HITS.clear()
    PATHS[0] = 0
    del SAMPLES[:]
    CASES.clear()


def tracing():
    try:
        from crosshair.tracers import is_tracing
        return is_tracing()
    except Exception:
        return False


@contextlib.contextmanager
def untraced():
    """run real code on concrete values at native speed (selector mode)"""
    if tracing():
        from crosshair.tracers import NoTracing
        with NoTracing():
            yield
    else:
        yield


def conc(x):
    """concrete value of a (possibly symbolic) scalar; forks the solver on it"""
    if tracing():
        from crosshair.core import deep_realize
        return deep_realize(x)
    return x


_RANGES = {}


def pick(table, i):
    """table[i] for a symbolic selector i: indexing a concrete list makes the
    solver branch once per feasible value (measured: 114 paths for 108 cases;
    deep_realize needed 1503)"""
    return table[i]


def of(values, i):
    """values[i] as a concrete value, for a list of ints and a symbolic selector i"""
    return [(v,) for v in values][i][0]


def selb(b):
    """concrete value of a symbolic bool (the solver branches on it)"""
    if b:
        return True
    return False


def sel(i, n):
    """concrete value of selector i known to be in range(n)"""
    # a list of 1-tuples: indexing a list of plain ints may yield a *symbolic* element
    # (CrossHair models it as an array select); boxed elements force one branch per value.
    # The cost of one indexing grows with the length of the list (measured: 200 values, 40 s
    # direct, 11 s as two base-16 digits), so large ranges are split into digits.
    if n > 24:
        return _small(i // 16, (n + 15) // 16) * 16 + _small(i % 16, 16)
    return _small(i, n)


def _small(i, n):
    r = _RANGES.get(n)
    if r is None:
        r = _RANGES[n] = [(v,) for v in range(n)]
    return r[i][0]


def begin(case=None):
    PATHS[0] += 1
    if case is not None:
        with untraced():
            text = repr(conc(case))
            CASES.add(text)
            if len(SAMPLES) < MAX_SAMPLES:
                SAMPLES.append(text)


def ok():
    return 'twin-reached' if TWIN else ''


def fail(key, detail):
    """report a violation unless ``key`` is a known finding excluded for this run"""
    with untraced():
        import fnmatch
        for pat in EXCLUDED:
            if fnmatch.fnmatchcase(key, pat):
                if pat not in HITS:
                    HITS[pat] = '%s :: %s' % (key, detail)
                return ok()
        return '%s :: %s' % (key, detail)


def not_applicable(what, detail):
    """the harness cannot judge this code (a seam it relies on has moved): reported as INCONCLUSIVE, never as a violation"""
    return 'HARNESS:%s :: %s' % (what, detail)

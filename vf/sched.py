"""Deterministic replay-stepping: interleave several real command runs on one
shared PosixModel without threads and without touching trash-cli.

To advance process p by b system calls the real command is re-executed from
its start; the results of the calls it already made are replayed from its log
(and checked: same call, same arguments -- the run is a deterministic function
of its system-call results because clock, randomness and stdin are stubs), then
b new calls are executed against the shared model and logged, then the process
is suspended (a sticky BaseException, so that a bare ``except:`` in trash-cli
cannot swallow it).
"""
from . import commands
from .posix_model import Suspend, StepBudgetExceeded


class NonDeterministicReplay(BaseException):
    pass


class Proc(object):
    def __init__(self, spec, name):
        self.spec = spec
        self.name = name
        self.log = []
        self.done = False
        self.result = None
        self.executions = 0


def _sig(name, args):
    return (name,) + tuple(a if isinstance(a, (str, int, bytes, type(None), bool)) else repr(a) for a in args)


class ReplayHook(object):
    def __init__(self, proc, budget):
        self.proc = proc
        self.budget = budget
        self.pos = 0
        self.suspended = False

    def __call__(self, model, name, args, impl):
        p = self.proc
        if self.suspended:
            raise Suspend()
        i = self.pos
        if i < len(p.log):
            kind, val, sig = p.log[i]
            if sig != _sig(name, args):
                raise NonDeterministicReplay('%s: call %d was %r, now %r' % (p.name, i, sig, _sig(name, args)))
            self.pos = i + 1
            if kind == 'r':
                return list(val) if isinstance(val, list) else val
            raise val
        if self.budget <= 0:
            self.suspended = True
            raise Suspend()
        self.budget -= 1
        self.pos = i + 1
        try:
            r = model.run_op(name, args, impl)
        except OSError as e:
            p.log.append(('e', e, _sig(name, args)))
            raise
        p.log.append(('r', list(r) if isinstance(r, list) else r, _sig(name, args)))
        return r


def advance(model, proc, budget):
    """run ``proc`` for at most ``budget`` further system calls (None: to completion)"""
    if proc.done:
        return
    hook = ReplayHook(proc, 10 ** 9 if budget is None else budget)
    model.hook = hook
    proc.executions += 1
    try:
        proc.result = commands.run_on_model(model, proc.spec).as_dict()
        proc.done = True
    except Suspend:
        pass
    finally:
        model.hook = None


def run_schedule(model, procs, segments):
    """segments: list of (process index, number of system calls); afterwards every
    process runs to completion in index order"""
    for idx, n in segments:
        advance(model, procs[idx], n)
    for p in procs:
        advance(model, p, None)
    return procs

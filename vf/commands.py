"""Run the real trash-cli commands -- through their real ``main()`` functions --
either on the PosixModel (facades installed in the trashcli namespaces) or on
the real file system (inside the chroot of vf.realfs).

Environment stubs installed in BOTH backends (each is part of every claim):
  * clock      trashcli.put.clock.datetime / trashcli.empty.main.datetime -> fixed 'now'
  * randomness trashcli.put.main.random.randint -> fixed value(s)
  * stdin      trashcli.lib.my_input._my_input -> scripted replies, EOFError when exhausted
  * tty        os.isatty(0) -> spec['tty']
  * mounts     trashcli.fstab.mount_points_listing.os_mount_points -> virtual mount table
               (psutil reads /proc/mounts, which neither backend has)
  * uid        os.getuid -> spec['uid'], os.geteuid -> spec['uid'] + 1 (never called by the unchanged tree)
  * argv/stdout/stderr  sys.argv, sys.stdout, sys.stderr (and the logging handler of
               trashcli.lib.logger) are redirected for the duration of the call
"""
import datetime as _real_datetime
import importlib
import io
import pkgutil
import sys
import types

from . import facade as _facade

EPOCH_FMT = '%Y-%m-%dT%H:%M:%S'


class EnvHolder(object):
    def __init__(self):
        self.now = _real_datetime.datetime(2020, 1, 2, 3, 4, 5)
        self.rand = [7]
        self.rand_calls = 0
        self.stdin = []
        self.mounts = ['/']
        self.prompts = []


ENV = EnvHolder()


class _FakeDatetimeClass(_real_datetime.datetime):
    @classmethod
    def now(cls, tz=None):
        n = ENV.now
        if tz is not None:  # the virtual local zone is UTC+2
            return (_real_datetime.datetime(n.year, n.month, n.day, n.hour, n.minute, n.second, n.microsecond,
                                            tzinfo=_real_datetime.timezone.utc)
                    - _real_datetime.timedelta(hours=2)).astimezone(tz)
        return _real_datetime.datetime(n.year, n.month, n.day, n.hour, n.minute, n.second, n.microsecond)

    @classmethod
    def utcnow(cls):
        n = ENV.now
        return _real_datetime.datetime(n.year, n.month, n.day, n.hour, n.minute, n.second, n.microsecond) \
            - _real_datetime.timedelta(hours=2)

    @classmethod
    def today(cls):
        return cls.now()

    @classmethod
    def fromtimestamp(cls, t, tz=None):
        if tz is not None:
            return _real_datetime.datetime.fromtimestamp(t, tz)
        u = _real_datetime.datetime(1970, 1, 1) + _real_datetime.timedelta(seconds=t)
        return u + _real_datetime.timedelta(hours=2)  # the virtual local zone: UTC+2, standard time in effect


_fake_datetime_module = types.SimpleNamespace(**{k: v for k, v in vars(_real_datetime).items() if not k.startswith('_')})
_fake_datetime_module.datetime = _FakeDatetimeClass


class _VirtualOsClock(object):
    """while a command runs, the ``time`` module answers from the same virtual clock as the datetime stub: the instant
    ENV.now in a zone that is UTC+2 with daylight-saving rules (altzone UTC+3) while standard time is in effect"""
    NAMES = ('time', 'localtime', 'gmtime', 'timezone', 'altzone', 'daylight', 'tzname')

    def __enter__(self):
        import calendar
        import time as _t
        self.saved = {n: getattr(_t, n) for n in self.NAMES}
        real_gmtime = _t.gmtime
        n = ENV.now
        epoch = calendar.timegm((n.year, n.month, n.day, n.hour, n.minute, n.second, 0, 0, 0)) - 7200

        def gmtime(secs=None):
            return real_gmtime(epoch if secs is None else secs)

        def localtime(secs=None):
            st = real_gmtime((epoch if secs is None else secs) + 7200)
            return _t.struct_time(tuple(st[:8]) + (0,))
        _t.time = lambda: float(epoch) + n.microsecond / 1e6
        _t.gmtime, _t.localtime = gmtime, localtime
        _t.timezone, _t.altzone, _t.daylight, _t.tzname = -7200, -10800, 1, ('VST', 'VDT')
        return self

    def __exit__(self, *a):
        import time as _t
        for k, v in self.saved.items():
            setattr(_t, k, v)
        return False


class _FakeRandom(object):
    @staticmethod
    def randint(a, b):
        # the contract of random.randint: both bounds are integers, a <= b, a <= result <= b
        if not isinstance(a, int) or not isinstance(b, int) or isinstance(a, bool) or isinstance(b, bool):
            raise TypeError('randint(%r, %r): integer bounds required' % (a, b))
        if a > b:
            raise ValueError('empty range in randrange(%d, %d)' % (a, b + 1))
        i = ENV.rand_calls
        ENV.rand_calls = i + 1
        v = ENV.rand[i % len(ENV.rand)]
        return a + (v - a) % (b - a + 1)


def _fake_input(prompt=''):
    ENV.prompts.append(prompt)
    sys.stdout.write(prompt)
    if not ENV.stdin:
        raise EOFError()
    return ENV.stdin.pop(0)


def _fake_os_mount_points():
    return list(ENV.mounts)


class _FakePsutil(object):
    """stands for the psutil module while a command runs: the mount table of the scenario.  The real
    trashcli.fstab.mount_points_listing.os_mount_points() filters it.  Every volume but '/' is reported as a btrfs
    subvolume of ONE device (the same device string on several mount points is ordinary: subvolumes, bind mounts)"""
    import collections as _c
    sdiskpart = _c.namedtuple('sdiskpart', ['device', 'mountpoint', 'fstype', 'opts'])

    @classmethod
    def disk_partitions(cls, all=False):
        """a mount point whose last component starts with 'net' is an NFS share: like the real psutil, it is reported
        only with all=True (all=False lists the file systems of physical devices only)"""
        out = []
        for mp in ENV.mounts:
            if mp == '/':
                out.append(cls.sdiskpart('/dev/sda1', '/', 'ext4', 'rw'))
            elif mp.rstrip('/').rsplit('/', 1)[-1].startswith('net'):
                if all:
                    out.append(cls.sdiskpart('server:/export' + mp, mp, 'nfs4', 'rw,vers=4.2'))
            else:
                out.append(cls.sdiskpart('/dev/sdz2', mp, 'btrfs', 'rw,subvol=' + mp))
        return out


class _FakePsutilInstalled(object):
    def __enter__(self):
        self.saved = sys.modules.get('psutil', None)
        sys.modules['psutil'] = _FakePsutil
        return self

    def __exit__(self, *a):
        if self.saved is None:
            sys.modules.pop('psutil', None)
        else:
            sys.modules['psutil'] = self.saved
        return False


class _FakePwd(object):
    """the password / group database of the virtual machine while main() runs: pwd.getpwall() lists two users (the
    invoking uid with home /h, uid + 1 with home /h2; trash-empty / trash-list --all-users walk it); pwd.getpwuid and
    grp.getgrgid know these two and root - or nobody at all when the scenario says passwd=False (a container started
    with an arbitrary --user: the owner of every file has no entry).  Names imported with `from pwd import getpwuid`
    in trashcli modules are re-bound too."""

    def __enter__(self):
        import collections
        import grp
        import pwd
        ent = collections.namedtuple('struct_passwd', ['pw_name', 'pw_passwd', 'pw_uid', 'pw_gid', 'pw_gecos', 'pw_dir', 'pw_shell'])
        gent = collections.namedtuple('struct_group', ['gr_name', 'gr_passwd', 'gr_gid', 'gr_mem'])
        uid = getattr(ENV, 'uid', None) or 1000
        users = {uid: ent('user', 'x', uid, uid, '', '/h', '/bin/sh'), uid + 1: ent('other', 'x', uid + 1, uid + 1, '', '/h2', '/bin/sh'),
                 0: ent('root', 'x', 0, 0, '', '/root', '/bin/sh')}
        known = getattr(ENV, 'passwd', True)

        def getpwall():
            return [users[uid], users[uid + 1]]

        def getpwuid(u):
            if not known or u not in users:
                raise KeyError('getpwuid(): uid not found: %s' % (u,))
            return users[u]

        def getgrgid(g):
            if not known or g not in users:
                raise KeyError('getgrgid(): gid not found: %s' % (g,))
            return gent(users[g].pw_name, 'x', g, [])
        self.real = {'getpwall': pwd.getpwall, 'getpwuid': pwd.getpwuid, 'getgrgid': grp.getgrgid}
        fake = {'getpwall': getpwall, 'getpwuid': getpwuid, 'getgrgid': getgrgid}
        self.rebound = []
        pwd.getpwall, pwd.getpwuid, grp.getgrgid = getpwall, getpwuid, getgrgid
        for mod in trashcli_modules():
            for name, real in self.real.items():
                if getattr(mod, name, None) is real:
                    setattr(mod, name, fake[name])
                    self.rebound.append((mod, name))
        return self

    def __exit__(self, *a):
        import grp
        import pwd
        pwd.getpwall, pwd.getpwuid, grp.getgrgid = self.real['getpwall'], self.real['getpwuid'], self.real['getgrgid']
        for mod, name in self.rebound:
            setattr(mod, name, self.real[name])
        return False


SIGNAL_HANDLERS = {}


class _VirtualSignals(object):
    """signal.signal / signal.getsignal act on a per-run table while main() runs: a handler the command installs is
    recorded (and later invoked by scen.SignalHook when the modelled signal arrives), never installed in this process"""

    def __enter__(self):
        import signal
        SIGNAL_HANDLERS.clear()
        self.saved = (signal.signal, signal.getsignal)

        def fake_signal(signum, handler):
            old = SIGNAL_HANDLERS.get(int(signum), signal.SIG_DFL)
            SIGNAL_HANDLERS[int(signum)] = handler
            return old

        def fake_getsignal(signum):
            return SIGNAL_HANDLERS.get(int(signum), signal.SIG_DFL)
        signal.signal, signal.getsignal = fake_signal, fake_getsignal
        return self

    def __exit__(self, *a):
        import signal
        signal.signal, signal.getsignal = self.saved
        return False


_TRASHCLI_MODULES = None


def trashcli_modules():
    """every importable module of the trashcli package under /repo"""
    global _TRASHCLI_MODULES
    if _TRASHCLI_MODULES is None:
        import trashcli
        mods = [trashcli]
        for mi in pkgutil.walk_packages(trashcli.__path__, 'trashcli.'):
            try:
                mods.append(importlib.import_module(mi.name))
            except Exception:  # optional dependencies (shtab ...) may be missing
                continue
        _TRASHCLI_MODULES = mods
    return _TRASHCLI_MODULES


_STUBS_INSTALLED = False


def install_env_stubs():
    global _STUBS_INSTALLED
    if _STUBS_INSTALLED:
        return
    trashcli_modules()
    import trashcli.put.clock as pc
    import trashcli.put.main as pmain
    import trashcli.empty.main as emain
    import trashcli.lib.my_input as mi
    import trashcli.fstab.mount_points_listing as mpl
    pc.datetime = _fake_datetime_module
    pmain.random = _FakeRandom
    emain.datetime = _FakeDatetimeClass
    # the same virtual clock for any other trashcli module that looks at the time through the datetime module / class
    for mod in trashcli_modules():
        for name, val in list(vars(mod).items()):
            if val is _real_datetime:
                setattr(mod, name, _fake_datetime_module)
            elif val is _real_datetime.datetime:
                setattr(mod, name, _FakeDatetimeClass)
    mi._my_input = _fake_input
    # (the mount table is stubbed one level lower, at psutil: the real os_mount_points() filters it)
    _STUBS_INSTALLED = True


FAC = None
SUBSTITUTIONS = []


def install_model_backend():
    """idempotent: facades into every trashcli module namespace"""
    global FAC, SUBSTITUTIONS
    install_env_stubs()
    if FAC is None:
        FAC = _facade.Facades()
        SUBSTITUTIONS = _facade.install(FAC, trashcli_modules())
    return FAC


def _main_of(cmd):
    if cmd == 'put':
        import trashcli.put.main as m
    elif cmd == 'list':
        import trashcli.list.main as m
    elif cmd == 'restore':
        import trashcli.restore.main as m
    elif cmd == 'empty':
        import trashcli.empty.main as m
    elif cmd == 'rm':
        import trashcli.rm.main as m
    else:
        raise ValueError(cmd)
    return m.main


def C(cmd, args=(), env=None, uid=1000, stdin=(), now='2020-01-02T03:04:05', rand=(7,), cwd=None, tty=False, passwd=True):
    """command spec (JSON-able)"""
    return {'cmd': cmd, 'args': list(args), 'env': dict(env or {}), 'uid': uid, 'stdin': list(stdin),
            'now': now, 'rand': list(rand), 'cwd': cwd, 'tty': tty, 'passwd': passwd}


class Result(object):
    __slots__ = ('out', 'err', 'exit', 'exc')

    def __init__(self, out, err, exit, exc):
        self.out, self.err, self.exit, self.exc = out, err, exit, exc

    def as_dict(self):
        return {'out': self.out, 'err': self.err, 'exit': self.exit, 'exc': self.exc}

    def __repr__(self):
        return 'Result(exit=%r, exc=%r, out=%r, err=%r)' % (self.exit, self.exc, self.out, self.err)


def _prepare(spec, mounts):
    # (the instant may carry a fraction of a second, as a real clock does: '2020-06-15T12:00:00.500000')
    ENV.now = _real_datetime.datetime.strptime(spec['now'], EPOCH_FMT + ('.%f' if '.' in spec['now'] else ''))
    ENV.rand = list(spec['rand']) or [7]
    ENV.passwd = spec.get('passwd', True)
    ENV.uid = spec.get('uid', 1000)
    ENV.rand_calls = 0
    ENV.stdin = list(spec['stdin'])
    ENV.mounts = list(mounts)
    ENV.prompts = []


def _call_main(spec):
    """call main() with sys.* redirected; returns Result"""
    main = _main_of(spec['cmd'])
    out, err = io.StringIO(), io.StringIO()
    saved = (sys.argv, sys.stdout, sys.stderr)
    from trashcli.lib.logger import my_logger
    handlers = [h for h in my_logger.handlers if hasattr(h, 'setStream')]
    old_streams = [h.stream for h in handlers]
    sys.argv = ['trash-' + spec['cmd']] + list(spec['args'])
    sys.stdout, sys.stderr = out, err
    for h in handlers:
        h.setStream(err)
    code, exc = None, None
    try:
        try:
            with _VirtualOsClock(), _FakePsutilInstalled(), _VirtualSignals(), _FakePwd():
                rc = main()
            code = 0 if rc is None else rc
        except SystemExit as e:
            code = 0 if e.code is None else e.code
            if not isinstance(code, int):
                err.write(str(code) + '\n')
                code = 1
        except Exception as e:  # what the interpreter would print as a traceback, exit status 1
            exc = '%s: %s' % (type(e).__name__, e)
            code = 1
    finally:
        sys.argv, sys.stdout, sys.stderr = saved
        for h, s in zip(handlers, old_streams):
            h.setStream(s)
    return Result(out.getvalue(), err.getvalue(), code, exc)


def run_on_model(model, spec, mounts=None):
    """run one command on the model; Crash/Suspend/ModelUnsupported propagate"""
    fac = install_model_backend()
    if mounts is None:
        mounts = ['/' + '/'.join(m) for m in model.mounts]
    _prepare(spec, mounts)
    fac.set_world(model, dict(spec['env']), spec['uid'], spec['tty'])
    if spec.get('cwd'):
        model.set_cwd(spec['cwd'])
    return _call_main(spec)


def run_on_real(spec, mounts):
    """inside the chroot child: real os, real shutil, real open"""
    import os
    install_env_stubs()
    _prepare(spec, mounts)
    os.environ.clear()
    os.environ.update(spec['env'])
    uid = spec['uid']
    os.getuid = lambda: uid
    os.geteuid = lambda: uid + 1   # as in the facade: effective uid != real uid
    tty = spec['tty']
    os.isatty = lambda fd: (fd in (0, 1, 2)) if tty is True else (False if not tty else fd in tty)
    if spec.get('cwd'):
        os.chdir(spec['cwd'])
    return _call_main(spec)


# ---------------------------------------------------------------- raw operations
def call_op(ns, op):
    """op = [dotted name, arg...] evaluated against ns = {'os':..., 'shutil':..., 'open':...};
    used by the differential validation of the model"""
    name, args = op[0], op[1:]
    try:
        if name == 'read':
            with ns['open'](args[0], 'rb') as fh:
                r = fh.read()
        elif name == 'readtext':
            with ns['open'](args[0]) as fh:
                r = fh.read()
        elif name == 'write':
            with ns['open'](args[0], args[1]) as fh:
                r = fh.write(args[2].encode('latin-1') if 'b' in args[1] else args[2])
        elif name == 'os.open+close':
            fd = ns['os'].open(*args)
            ns['os'].close(fd)
            r = 'fd'
        elif name == 'listdir':
            r = sorted(ns['os'].listdir(*args))
        elif name == 'walk':
            r = sorted((t, tuple(sorted(ds)), tuple(sorted(fs))) for t, ds, fs in ns['os'].walk(args[0], followlinks=False))
        elif name == 'statmode':
            st = ns['os'].stat(args[0], follow_symlinks=args[1])
            r = st.st_mode
        else:
            obj = ns[name.split('.')[0]]
            for part in name.split('.')[1:]:
                obj = getattr(obj, part)
            r = obj(*args)
        if isinstance(r, bytes):
            r = r.decode('latin-1')
        return ['ok', r]
    except OSError as e:
        return ['err', type(e).__name__, e.errno]
    except Exception as e:
        # shutil.Error lives in two module copies: compare by name only
        return ['exc', type(e).__name__]

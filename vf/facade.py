"""Facades that stand in for ``os`` / ``os.path`` / ``shutil`` / ``open`` in the
namespaces of the trashcli modules.

Only the system-call layer comes from vf.posix_model.  Everything CPython
implements in Python on top of system calls is *re-executed from CPython's own
source* with its ``os`` bound to the facade:

* ``genericpath`` / ``posixpath`` (exists, lexists, isdir, isfile, islink,
  realpath, abspath, ismount, samefile, getsize ...)
* ``shutil`` (move, rmtree, copytree, copy2, copyfile, copystat ...), forced
  onto its portable code paths (no fd-based rmtree, no sendfile)
* ``os.makedirs`` / ``os.walk`` / ``os.removedirs`` / ``os.renames`` from os.py

so that a crash, an injected error or a context switch can fall between any
two system calls of e.g. a cross-device ``shutil.move``.
"""
import importlib
import inspect
import io
import os as _real_os
import stat as _stat
import sys
import types

from . import posix_model as pm
from .posix_model import ModelUnsupported


class ModelUnsupportedAttr(AttributeError):
    """hasattr()-compatible flavour of ModelUnsupported"""


class FDirEntry(object):
    __slots__ = ('name', 'path', '_kind', '_ino', '_os', '_dirfd')

    def __init__(self, osf, dirpath, name, kind, ino):
        self.name = name
        self._dirfd = None
        if isinstance(dirpath, int):  # scandir(fd): paths are bare names relative to the fd
            self._dirfd = dirpath
            self.path = name
        elif dirpath in ('.', ''):
            self.path = name
        elif dirpath.endswith('/'):
            self.path = dirpath + name
        else:
            self.path = dirpath + '/' + name
        self._kind = kind
        self._ino = ino
        self._os = osf

    def inode(self):
        return self._ino

    def is_symlink(self):
        return self._kind == 'l'

    def is_junction(self):
        return False

    def is_dir(self, follow_symlinks=True):
        if self._kind != 'l' or not follow_symlinks:
            return self._kind == 'd'
        try:
            return _stat.S_ISDIR(self._os.stat(self.path, dir_fd=self._dirfd).st_mode)
        except OSError:
            return False

    def is_file(self, follow_symlinks=True):
        if self._kind != 'l' or not follow_symlinks:
            return self._kind == 'f'
        try:
            return _stat.S_ISREG(self._os.stat(self.path, dir_fd=self._dirfd).st_mode)
        except OSError:
            return False

    def stat(self, follow_symlinks=True):
        return self._os.stat(self.path, dir_fd=self._dirfd, follow_symlinks=follow_symlinks)

    def __fspath__(self):
        return self.path

    def __repr__(self):
        return '<FDirEntry %r>' % self.name


class FScandirIterator(object):
    def __init__(self, entries):
        self._it = iter(entries)

    def __iter__(self):
        return self

    def __next__(self):
        return next(self._it)

    def close(self):
        pass

    def __enter__(self):
        return self

    def __exit__(self, *a):
        return False


ENV_LOOKUPS = set()  # names of the environment variables the code under test has consulted (any run)


class RecEnviron(dict):
    """os.environ of the modelled process; remembers which names were looked up"""

    def get(self, key, default=None):
        ENV_LOOKUPS.add(key)
        return dict.get(self, key, default)

    def __getitem__(self, key):
        ENV_LOOKUPS.add(key)
        return dict.__getitem__(self, key)

    def __contains__(self, key):
        ENV_LOOKUPS.add(key)
        return dict.__contains__(self, key)


class FFile(object):
    """file object returned by the facade's builtin ``open``"""

    def __init__(self, osf, fd, binary, name, encoding=None, errors=None, newline=None):
        self._os = osf
        self._fd = fd
        self._binary = binary
        self.name = name
        self.closed = False
        self._encoding = encoding or 'utf-8'  # the preferred encoding of a UTF-8 locale
        self._errors = errors or 'strict'
        self._newline = newline
        self._buf = None
        self._pos = 0

    def fileno(self):
        return self._fd

    def read(self, n=-1):
        if self._binary:
            return self._os.read(self._fd, -1 if n is None else n)
        # text mode: decode what is left once, translate line ends as io.TextIOWrapper does
        # (newline=None: universal newlines, '\r\n' and '\r' read as '\n'), then count CHARACTERS
        if self._buf is None:
            text = self._os.read(self._fd, -1).decode(self._encoding, self._errors)
            if self._newline is None:
                text = text.replace('\r\n', '\n').replace('\r', '\n')
            self._buf = text
            self._pos = 0
        if n is None or n < 0:
            out = self._buf[self._pos:]
        else:
            out = self._buf[self._pos:self._pos + n]
        self._pos += len(out)
        return out

    def readinto(self, b):
        data = self._os.read(self._fd, len(b))
        b[:len(data)] = data
        return len(data)

    def readlines(self):
        return self.read().splitlines(True)

    def __iter__(self):
        return iter(self.readlines())

    def write(self, s):
        if not self._binary:
            if not isinstance(s, str):
                raise TypeError('write() argument must be str, not %s' % type(s).__name__)
            s = s.encode('utf-8')
        elif isinstance(s, str):
            raise TypeError("a bytes-like object is required, not 'str'")
        self._os.write(self._fd, s)
        return len(s)

    def flush(self):
        pass

    def close(self):
        if not self.closed:
            self.closed = True
            self._os.close(self._fd)

    def __enter__(self):
        return self

    def __exit__(self, *a):
        self.close()
        return False


class _Holder(object):
    """one indirection so that a single set of facades can be re-pointed at a
    fresh model for every path the solver explores"""

    def __init__(self):
        self.m = None
        self.environ = {}
        self.uid = 1000
        self.isatty0 = False


def _load_private(modname, alias):
    real = importlib.import_module(modname)
    path = real.__file__  # also set for the frozen stdlib modules (os, posixpath, genericpath)
    with io.open(path, 'r', encoding='utf-8') as f:
        src = f.read()
    mod = types.ModuleType(alias)
    mod.__file__ = path
    code = compile(src, path, 'exec')
    exec(code, mod.__dict__)
    return mod


class FOs(object):
    """the ``os`` facade"""
    name = 'posix'
    sep = '/'
    altsep = None
    curdir = '.'
    pardir = '..'
    extsep = '.'
    pathsep = ':'
    linesep = '\n'
    devnull = '/dev/null'
    error = OSError
    O_RDONLY, O_WRONLY, O_RDWR = pm.O_RDONLY, pm.O_WRONLY, pm.O_RDWR
    O_CREAT, O_EXCL, O_TRUNC, O_APPEND = pm.O_CREAT, pm.O_EXCL, pm.O_TRUNC, pm.O_APPEND
    O_NOFOLLOW, O_DIRECTORY, O_CLOEXEC, O_NONBLOCK = pm.O_NOFOLLOW, pm.O_DIRECTORY, pm.O_CLOEXEC, pm.O_NONBLOCK
    F_OK, R_OK, W_OK, X_OK = 0, 4, 2, 1
    EX_OK, EX_USAGE, EX_IOERR = 0, 64, 74
    SEEK_SET, SEEK_CUR, SEEK_END = 0, 1, 2
    PathLike = _real_os.PathLike
    DirEntry = FDirEntry
    stat_result = pm.StatResult

    def __init__(self, holder):
        self._h = holder
        self.supports_follow_symlinks = set()
        self.supports_dir_fd = set()
        self.supports_fd = set()
        self.supports_effective_ids = set()

    # -- things every process has
    @property
    def environ(self):
        return self._h.environ

    def getenv(self, key, default=None):
        return self._h.environ.get(key, default)

    def getuid(self):
        return self._h.uid

    def geteuid(self):
        # real and effective uid differ (as under a set-uid wrapper): trash-cli names its
        # `$uid` directories after the REAL uid only (it never calls geteuid on the unchanged tree),
        # so a command that starts to use the effective one looks into other directories than the rest
        return self._h.uid + 1

    def getgid(self):
        return self._h.uid

    def getpid(self):
        return 4242

    def isatty(self, fd):
        t = self._h.isatty0
        if t is True:
            return fd in (0, 1, 2)
        if not t:
            return False
        return fd in t  # an explicit collection of terminal descriptors

    def umask(self, mask):
        old = self._h.m.umask
        self._h.m.umask = mask
        return old

    def strerror(self, code):
        return _real_os.strerror(code)

    @staticmethod
    def fspath(p):
        return _real_os.fspath(p)

    @staticmethod
    def fsencode(p):
        return _real_os.fsencode(p)

    @staticmethod
    def fsdecode(p):
        return _real_os.fsdecode(p)

    def system(self, cmd):
        raise ModelUnsupported('os.system(%r)' % (cmd,))

    # -- system calls
    def _nofd(self, dir_fd):
        if dir_fd is not None:
            raise ModelUnsupported('dir_fd')

    def stat(self, path, *, dir_fd=None, follow_symlinks=True):
        if isinstance(path, int):
            return self._h.m.fstat(path)
        return self._h.m.stat(path, follow_symlinks, dir_fd)

    def lstat(self, path, *, dir_fd=None):
        return self._h.m.stat(path, False, dir_fd)

    def fstat(self, fd):
        return self._h.m.fstat(fd)

    def access(self, path, mode, *, dir_fd=None, effective_ids=False, follow_symlinks=True):
        self._nofd(dir_fd)
        return self._h.m.access(path, mode, follow_symlinks)

    def listdir(self, path='.'):
        return self._h.m.listdir(path)

    def scandir(self, path='.'):
        p = path if isinstance(path, int) else _real_os.fspath(path)
        return FScandirIterator([FDirEntry(self, p, n, k, i) for n, k, i in self._h.m.scandir(p)])

    def readlink(self, path, *, dir_fd=None):
        self._nofd(dir_fd)
        return self._h.m.readlink(path)

    def getcwd(self):
        return self._h.m.getcwd()

    def chdir(self, path):
        return self._h.m.chdir(path)

    def mkdir(self, path, mode=0o777, *, dir_fd=None):
        self._nofd(dir_fd)
        return self._h.m.mkdir(path, mode)

    def open(self, path, flags, mode=0o777, *, dir_fd=None):
        return self._h.m.open(path, flags, mode, dir_fd)

    def write(self, fd, data):
        return self._h.m.write(fd, data)

    def read(self, fd, n):
        return self._h.m.read(fd, n)

    def close(self, fd):
        return self._h.m.close(fd)

    def fsync(self, fd):
        return None

    def unlink(self, path, *, dir_fd=None):
        return self._h.m.unlink(path, dir_fd)

    def remove(self, path, *, dir_fd=None):
        return self._h.m.unlink(path, dir_fd)

    def rmdir(self, path, *, dir_fd=None):
        return self._h.m.rmdir(path, dir_fd)

    def rename(self, src, dst, *, src_dir_fd=None, dst_dir_fd=None):
        self._nofd(src_dir_fd)
        self._nofd(dst_dir_fd)
        return self._h.m.rename(_real_os.fspath(src), _real_os.fspath(dst))

    def replace(self, src, dst, *, src_dir_fd=None, dst_dir_fd=None):
        return self.rename(src, dst)

    def symlink(self, src, dst, target_is_directory=False, *, dir_fd=None):
        self._nofd(dir_fd)
        return self._h.m.symlink(src, dst)

    def link(self, src, dst, **kw):
        raise ModelUnsupported('os.link (hard links are not modelled)')

    def chmod(self, path, mode, *, dir_fd=None, follow_symlinks=True):
        self._nofd(dir_fd)
        return self._h.m.chmod(path, mode, follow_symlinks)

    def lchmod(self, path, mode):
        return self._h.m.chmod(path, mode, False)

    def chown(self, path, uid, gid, **kw):
        return None

    def utime(self, path, times=None, *, ns=None, dir_fd=None, follow_symlinks=True):
        self._nofd(dir_fd)
        if times is not None:
            ns = (int(times[0] * 1e9), int(times[1] * 1e9))
        return self._h.m.utime(path, ns, follow_symlinks)

    def listxattr(self, path=None, *, follow_symlinks=True):
        return []

    def getxattr(self, *a, **kw):
        raise pm.oserr(61)

    def setxattr(self, *a, **kw):
        return None

    def __getattr__(self, name):
        raise ModelUnsupportedAttr('os.%s is not provided by the environment stub' % name)


def _adopt_from_os_py(osf, names):
    """re-execute pure-Python helpers of os.py (makedirs, walk, ...) against the facade"""
    ns = {
        'path': osf.path, 'mkdir': osf.mkdir, 'curdir': '.', 'pardir': '..', 'sep': '/',
        'scandir': osf.scandir, 'fspath': osf.fspath, 'rmdir': osf.rmdir, 'rename': osf.rename,
        'st': _stat, 'sys': types.SimpleNamespace(audit=lambda *a: None),
        'stat': osf.stat, 'lstat': osf.lstat, 'error': OSError, 'OSError': OSError,
        'bytes': bytes, 'isinstance': isinstance, 'fsencode': osf.fsencode,
        'walk': None, 'makedirs': None, 'removedirs': None, 'renames': None,
    }
    import ast
    with io.open(_real_os.__file__, 'r', encoding='utf-8') as f:
        os_src = f.read()
    tree = ast.parse(os_src)
    for n in names:
        fdef = [x for x in tree.body if isinstance(x, ast.FunctionDef) and x.name == n][0]
        src = ast.get_source_segment(os_src, fdef)
        exec(compile(src, '<os.py:%s>' % n, 'exec'), ns)
        setattr(osf, n, ns[n])


class Facades(object):
    """one consistent set: .os .path .shutil .open over one holder"""

    def __init__(self):
        self.holder = _Holder()
        osf = FOs(self.holder)
        gp = _load_private('genericpath', 'vf_genericpath')
        gp.os = osf
        pp = _load_private('posixpath', 'vf_posixpath')
        pp.os = osf
        pp.genericpath = gp
        for n in gp.__all__:
            setattr(pp, n, getattr(gp, n))
        for n in ('_check_arg_types',):
            setattr(pp, n, getattr(gp, n))
        osf.path = pp
        _adopt_from_os_py(osf, ['makedirs', 'walk', 'removedirs', 'renames'])
        sh = _load_private('shutil', 'vf_shutil')
        sh.os = osf
        # as on Linux: the symlink-attack resistant, fd based rmtree
        osf.supports_dir_fd = {osf.open, osf.stat, osf.unlink, osf.rmdir}
        osf.supports_fd = {osf.scandir, osf.stat}
        sh._use_fd_functions = True
        sh._USE_CP_SENDFILE = False
        sh._HAS_FCOPYFILE = False
        if hasattr(sh, '_USE_CP_COPY_FILE_RANGE'):
            sh._USE_CP_COPY_FILE_RANGE = False
        sh.open = self.open
        sh.sys = types.SimpleNamespace(audit=lambda *a: None, platform='linux')
        osf.supports_follow_symlinks = {osf.stat, osf.utime, osf.access, osf.chown}  # as on Linux: no chmod
        # bound methods hash/compare by (self, func): membership tests in shutil work
        self.os = osf
        self.path = pp
        self.genericpath = gp
        self.shutil = sh

    def set_world(self, model, environ, uid=1000, isatty0=False):
        self.holder.m = model
        self.holder.environ = RecEnviron(environ)
        self.holder.uid = uid
        self.holder.isatty0 = isatty0

    # builtin open
    def open(self, file, mode='r', buffering=-1, encoding=None, errors=None, newline=None, closefd=True, opener=None):
        osf = self.os
        if isinstance(file, int):
            raise ModelUnsupported('open(fd)')
        binary = 'b' in mode
        plus = '+' in mode
        m = mode.replace('b', '').replace('t', '').replace('+', '')
        if m == 'r':
            flags = pm.O_RDWR if plus else pm.O_RDONLY
        elif m == 'w':
            flags = (pm.O_RDWR if plus else pm.O_WRONLY) | pm.O_CREAT | pm.O_TRUNC
        elif m == 'a':
            flags = (pm.O_RDWR if plus else pm.O_WRONLY) | pm.O_CREAT | pm.O_APPEND
        elif m == 'x':
            flags = (pm.O_RDWR if plus else pm.O_WRONLY) | pm.O_CREAT | pm.O_EXCL
        else:
            raise ValueError('invalid mode: %r' % mode)
        fd = osf.open(_real_os.fspath(file), flags | pm.O_CLOEXEC, 0o666)
        return FFile(osf, fd, binary, file, encoding, errors, newline)


_OS_LIKE_MODULES = ('os', 'posix', 'posixpath', 'genericpath', 'shutil', 'nt', 'ntpath')


def install(fac, modules):
    """Substitute os / os.path / shutil / open in the namespaces of ``modules``.

    Besides the module objects themselves, any global that *is* a function of
    os / posixpath / genericpath / shutil (``from os.path import exists``) is
    replaced by the facade's function of the same name, so that a refactoring
    of trash-cli's imports cannot leak to the real file system unnoticed.
    Returns the list of (module, name) substitutions for the evidence file.
    """
    import os
    import posixpath
    import genericpath
    import shutil
    done = []
    for mod in modules:
        d = mod.__dict__
        for name, val in list(d.items()):
            new = None
            if val is os or isinstance(val, FOs):
                new = fac.os
            elif val is posixpath or val is os.path or getattr(val, '__name__', None) == 'vf_posixpath':
                new = fac.path
            elif val is genericpath or getattr(val, '__name__', None) == 'vf_genericpath':
                new = fac.genericpath
            elif val is shutil or getattr(val, '__name__', None) == 'vf_shutil':
                new = fac.shutil
            elif (inspect.isfunction(val) or inspect.isbuiltin(val)) and \
                    getattr(val, '__module__', None) in _OS_LIKE_MODULES:
                owner = val.__module__
                fname = getattr(val, '__name__', name)
                if owner in ('os', 'posix'):
                    new = getattr(fac.os, fname)
                elif owner in ('posixpath', 'genericpath'):
                    new = getattr(fac.path, fname)
                elif owner == 'shutil':
                    new = getattr(fac.shutil, fname)
            if new is not None and new is not val:
                d[name] = new
                done.append((mod.__name__, name))
        if 'open' not in d or d.get('open') is not fac.open:
            d['open'] = fac.open
            done.append((mod.__name__, 'open'))
    return done

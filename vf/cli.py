import argparse
import os
import sys


def main():
    ap = argparse.ArgumentParser()
    ap.add_argument('prop')
    ap.add_argument('--tier', default=os.environ.get('VERIF_TIER', 'quick'), choices=['quick', 'thorough'])
    ap.add_argument('--replay')
    a = ap.parse_args()
    prop = a.prop.upper()
    seed = int(os.environ.get('VERIF_SEED', '0') or 0)
    sys.setrecursionlimit(10000)
    alt = os.environ.get('VERIF_REPO')  # developer aid: analyse another checkout (seeded mutants); never set by MANIFEST commands
    if alt:
        sys.path.insert(0, alt)
        os.environ['PYTHONPATH'] = alt + os.pathsep + os.environ.get('PYTHONPATH', '')
    if prop == 'MODEL':
        from harness import model
        return model.main(a.tier)
    from . import runner
    module = 'harness.' + prop.lower()
    if a.replay:
        return runner.replay_file(prop, a.replay)
    return runner.run_check(prop, a.tier, module, seed)


if __name__ == '__main__':
    sys.exit(main())

"""RealBackend: run scenarios against the REAL file system and the real os /
shutil, confined to a throw-away world.

For every scenario a child process is forked which
  1. unshares its mount namespace (private propagation),
  2. mounts a fresh tmpfs as the virtual '/', and one more tmpfs per virtual
     mount point (so st_dev, EXDEV and os.path.ismount are the kernel's own),
  3. chroots into it,
  4. builds the world, runs the steps (trash-cli main()s or raw os/shutil
     operations) and reports results + a snapshot of the final tree.
Nothing can escape the chroot, nothing outlives the child (the namespace dies
with it).  Needs CAP_SYS_ADMIN + CAP_SYS_CHROOT (present in this sandbox: uid 0);
``available()`` says whether it works, callers degrade to model-only replays.

Usage: python -m vf.realfs < scenarios.json > results.json
scenario = {'world': world, 'steps': [step...], 'snap': '/'}
step     = {'cmd': ...}  (vf.commands.C)  |  {'op': [name, args...]}  |  {'snap': path}
"""
import ctypes
import json
import os
import sys
import tempfile
import traceback

MS_RDONLY = 1
MS_REMOUNT = 32
MS_BIND = 4096
MS_REC = 16384
MS_PRIVATE = 1 << 18

_libc = None


def _mount(src, target, fstype, flags, data=None):
    global _libc
    if _libc is None:
        _libc = ctypes.CDLL(None, use_errno=True)
    r = _libc.mount(src.encode() if src else None, target.encode(),
                    fstype.encode() if fstype else None, ctypes.c_ulong(flags),
                    data.encode() if data else None)
    if r != 0:
        e = ctypes.get_errno()
        raise OSError(e, 'mount(%s): %s' % (target, os.strerror(e)))


def enter_private_namespace():
    os.unshare(os.CLONE_NEWNS)
    _mount('none', '/', None, MS_REC | MS_PRIVATE)


def make_root_readonly():
    """safety net for model-mode workers: a leak of trash-cli onto the real
    root file system fails with EROFS instead of writing to the sandbox"""
    enter_private_namespace()
    _mount('/', '/', None, MS_BIND | MS_REC)
    _mount('none', '/', None, MS_REMOUNT | MS_BIND | MS_RDONLY)


def _preimport():
    # everything that would otherwise be imported lazily after the chroot
    import encodings.utf_8, encodings.latin_1, encodings.ascii, encodings.idna  # noqa
    import argparse, logging, fnmatch, re, shutil, stat, random, datetime, pwd, grp  # noqa
    import urllib.parse  # noqa
    import _strptime  # noqa
    from . import commands
    commands.install_env_stubs()
    try:
        import psutil  # noqa
    except Exception:
        pass
    datetime.datetime.strptime('2020-01-01', '%Y-%m-%d')
    for c in ('put', 'list', 'restore', 'empty', 'rm'):
        commands._main_of(c)
    try:
        pwd.getpwuid(0)
    except Exception:
        pass


def _child(scn, wfd):
    from . import commands, world as W
    out = {'steps': [], 'snap': None, 'error': None}
    try:
        enter_private_namespace()
        base = tempfile.mkdtemp(prefix='vfreal')
        _mount('none', base, 'tmpfs', 0, 'mode=0755')
        mounts = scn['world']['mounts']
        for mp in sorted(mounts, key=len):
            if mp == '/':
                continue
            os.makedirs(base + mp, exist_ok=True)
            _mount('none', base + mp, 'tmpfs', 0, 'mode=0755')
        os.chroot(base)
        os.chdir('/')
        W.build_real(scn['world'])
        ns = {'os': os, 'shutil': __import__('shutil'), 'open': open}
        for step in scn['steps']:
            if 'cmd' in step:
                r = commands.run_on_real(step, mounts)
                out['steps'].append(r.as_dict())
            elif 'op' in step:
                out['steps'].append(commands.call_op(ns, step['op']))
            elif 'snap' in step:
                out['steps'].append(W.jsonable(W.snap_real(step['snap'])))
            elif 'chdir' in step:
                os.chdir(step['chdir'])
                out['steps'].append(None)
        out['snap'] = W.jsonable(W.snap_real(scn.get('snap', '/')))
    except BaseException:
        out['error'] = traceback.format_exc()
    try:
        data = json.dumps(out).encode()
        os.write(wfd, data)
    finally:
        os._exit(0)


def run_scenario(scn):
    _preimport()
    rfd, wfd = os.pipe()
    sys.stdout.flush()
    sys.stderr.flush()
    pid = os.fork()
    if pid == 0:
        os.close(rfd)
        _child(scn, wfd)
        os._exit(0)
    os.close(wfd)
    chunks = []
    while True:
        b = os.read(rfd, 1 << 16)
        if not b:
            break
        chunks.append(b)
    os.close(rfd)
    os.waitpid(pid, 0)
    if not chunks:
        return {'steps': [], 'snap': None, 'error': 'child died without output'}
    return json.loads(b''.join(chunks).decode())


def available():
    try:
        r = run_scenario({'world': {'mounts': ['/', '/v'], 'cwd': '/', 'nodes': []},
                          'steps': [{'op': ['os.path.ismount', '/v']}]})
        return r['error'] is None and r['steps'] == [['ok', True]]
    except Exception:
        return False


def main():
    scenarios = json.load(sys.stdin)
    res = [run_scenario(s) for s in scenarios]
    json.dump(res, sys.stdout)


def run_batch(scenarios, python=None, timeout=600):
    """run scenarios in a fresh interpreter (no facades in the trashcli namespaces)"""
    import subprocess
    here = os.path.dirname(os.path.dirname(os.path.abspath(__file__)))
    env = dict(os.environ)
    env['PYTHONPATH'] = here + os.pathsep + env.get('PYTHONPATH', '')
    p = subprocess.run([python or sys.executable, '-m', 'vf.realfs'], input=json.dumps(scenarios).encode(),
                       stdout=subprocess.PIPE, stderr=subprocess.PIPE, env=env, timeout=timeout, cwd=here)
    if p.returncode != 0:
        raise RuntimeError('vf.realfs failed: ' + p.stderr.decode()[-2000:])
    return json.loads(p.stdout.decode())


if __name__ == '__main__':
    main()

"""pysym -- a small symbolic executor from Python source (AST) to z3.

Used for string kernels that CrossHair cannot confirm (it realises symbolic strings at ``%`` formatting and
explodes on longer strings): the function's AST is read from /repo at every run and executed over z3 terms;
every ``if`` forks the path condition, so the result is a list of leaves ``(path condition, outcome)`` whose
disjunction covers all inputs.  A property is then one z3 query per leaf: ``pc and not property`` must be unsat.

Supported subset -- anything else raises Unsupported, which makes the check INCONCLUSIVE (never green):
  statements  docstring, pass, assignment to a name, ``+=``, if/elif/else, return, raise (recorded by class name)
  expressions constants, names (parameters, locals, module-level str/int/bool/None constants), ``+`` on str or
              int, ``%`` formatting with %s / %(key)s only, ``== != in not in`` (str/str, key/dict), ``and or not``,
              conditional expressions, list / tuple displays, ``len``, ``str``, ``d.get(k[, default])``, ``d[k]``,
              ``s.startswith / endswith / find / rfind / replace(a, b, 1)``, constant-bound slices ``s[a:b]`` and
              ``s[i]``, ``os.path.basename / dirname / join / split`` and ``os.path.sep`` / ``os.sep`` (modelled
              after CPython's posixpath; validated differentially, see ``validate``), calls of functions defined
              in the same module (inlined), calls the caller registered as free functions (-> recorded, fresh result)
Values       concrete Python values stay concrete; S = z3 string; B = z3 bool; I = z3 int; lists/tuples of values
             have concrete length; D = dict with concrete keys, each (present: z3 Bool, value)
"""
import ast
import importlib
import io

import z3


class Unsupported(Exception):
    pass


class S(object):
    def __init__(self, t):
        self.t = t


class B(object):
    def __init__(self, t):
        self.t = t


class I(object):
    def __init__(self, t):
        self.t = t


class D(object):
    """dict with concrete keys: key -> (present, value)"""

    def __init__(self, entries):
        self.entries = dict(entries)


class Raised(object):
    def __init__(self, name):
        self.name = name


def zs(v):
    if isinstance(v, S):
        return v.t
    if isinstance(v, str):
        return z3.StringVal(v)
    raise Unsupported('string expected, got %r' % (v,))


def zi(v):
    if isinstance(v, I):
        return v.t
    if isinstance(v, bool):
        raise Unsupported('int expected')
    if isinstance(v, int):
        return z3.IntVal(v)
    raise Unsupported('int expected, got %r' % (v,))


def truth(v):
    """-> Python bool or z3 Bool"""
    if isinstance(v, B):
        return v.t
    if isinstance(v, S):
        return z3.Length(v.t) > 0
    if isinstance(v, I):
        return v.t != 0
    if isinstance(v, (str, int, bool, list, tuple)) or v is None:
        return bool(v)
    if isinstance(v, D):
        raise Unsupported('truth of a symbolic dict')
    raise Unsupported('truth of %r' % (v,))


def eq(a, b):
    """-> Python bool or z3 Bool"""
    if isinstance(a, (S, str)) and isinstance(b, (S, str)):
        if isinstance(a, str) and isinstance(b, str):
            return a == b
        return zs(a) == zs(b)
    if isinstance(a, (I, int)) and isinstance(b, (I, int)) and not isinstance(a, bool) and not isinstance(b, bool):
        if isinstance(a, int) and isinstance(b, int):
            return a == b
        return zi(a) == zi(b)
    if isinstance(a, (B, bool)) and isinstance(b, (B, bool)):
        ta = a.t if isinstance(a, B) else z3.BoolVal(a)
        tb = b.t if isinstance(b, B) else z3.BoolVal(b)
        return ta == tb
    if a is None or b is None:
        return a is None and b is None
    if isinstance(a, (list, tuple)) and isinstance(b, (list, tuple)):
        if type(a) != type(b) or len(a) != len(b):
            return False
        parts = [eq(x, y) for x, y in zip(a, b)]
        if any(p is False for p in parts):
            return False
        sym = [p for p in parts if p is not True]
        return z3.And(*sym) if sym else True
    if type(a) != type(b) and not isinstance(a, (S, B, I)) and not isinstance(b, (S, B, I)):
        return False
    raise Unsupported('comparison of %r and %r' % (a, b))


def znot(c):
    return (not c) if isinstance(c, bool) else z3.Not(c)


# ------------------------------------------------------------------ posixpath, modelled after CPython 3.12
SLASH = z3.StringVal('/')


def _substr_from(t, i):
    return z3.SubString(t, i, z3.Length(t) - i)


class Ctx(object):
    """one path of the execution: path condition + fresh-variable supply + recorded free calls"""

    def __init__(self, ex, pc, calls):
        self.ex, self.pc, self.calls = ex, list(pc), list(calls)

    def fresh(self, hint, sort=None):
        self.ex.n += 1
        name = '%s!%d' % (hint, self.ex.n)
        return z3.String(name) if sort is None else z3.Const(name, sort)


def _head_tail(ctx, p):
    """p = head + tail, tail = the part after the last slash: stated as a word equation over two fresh
    variables (z3's sequence solver decides these far better than LastIndexOf terms)"""
    t = zs(p)
    head, tail = ctx.fresh('head'), ctx.fresh('tail')
    ctx.pc.append(t == z3.Concat(head, tail))
    ctx.pc.append(z3.Not(z3.Contains(tail, SLASH)))
    ctx.pc.append(z3.Or(z3.Length(head) == 0, z3.SuffixOf(SLASH, head)))
    return head, tail


def px_basename(ctx, p):
    return S(_head_tail(ctx, p)[1])


def _rstrip_slashes(ctx, head):
    """head.rstrip('/') as a fresh variable constrained by: head = r + slashes, r does not end with '/'"""
    r = ctx.fresh('rstrip')
    sl = ctx.fresh('slashes')
    ctx.pc.append(head == z3.Concat(r, sl))
    ctx.pc.append(z3.InRe(sl, z3.Star(z3.Re('/'))))
    ctx.pc.append(z3.Not(z3.SuffixOf(SLASH, r)))
    return r


def px_split(ctx, p):
    head, tail = _head_tail(ctx, p)
    allslash = z3.InRe(head, z3.Star(z3.Re('/')))  # covers the empty head too
    stripped = _rstrip_slashes(ctx, head)
    return S(z3.If(allslash, head, stripped)), S(tail)


def px_dirname(ctx, p):
    return px_split(ctx, p)[0]


def px_join(ctx, a, *rest):
    path = zs(a)
    for b in rest:
        tb = zs(b)
        path = z3.If(z3.PrefixOf(SLASH, tb), tb,
                     z3.If(z3.Or(z3.Length(path) == 0, z3.SuffixOf(SLASH, path)), z3.Concat(path, tb), z3.Concat(path, SLASH, tb)))
    return S(path)


OSPATH = {'basename': px_basename, 'dirname': px_dirname, 'join': px_join}


# ------------------------------------------------------------------------------------------ the executor
class Executor(object):
    def __init__(self, module_name, free_functions=(), max_leaves=256, prune=True):
        self.mod = importlib.import_module(module_name)
        with io.open(self.mod.__file__, 'r', encoding='utf-8') as f:
            self.src = f.read()
        self.tree = ast.parse(self.src)
        self.funcs = {}
        for n in ast.walk(self.tree):
            if isinstance(n, ast.FunctionDef):
                self.funcs.setdefault(n.name, n)
        self.free = set(free_functions)
        self.n = 0
        self.max_leaves = max_leaves
        self.prune = prune
        self.leaves = []
        self.encoded = []

    # -- driving
    def run(self, func_name, actuals, pc=()):
        """-> leaves [(pc, outcome, calls)] ; outcome is a value or Raised"""
        if func_name not in self.funcs:
            raise Unsupported('no function %s in %s' % (func_name, self.mod.__name__))
        self.leaves = []
        self.encoded.append('%s.%s' % (self.mod.__name__, func_name))
        ctx = Ctx(self, pc, [])
        for c, out in self._call(ctx, self.funcs[func_name], list(actuals), 0):
            self.leaves.append((c.pc, out, c.calls))
            if len(self.leaves) > self.max_leaves:
                raise Unsupported('more than %d paths' % self.max_leaves)
        return self.leaves

    def feasible(self, pc):
        if not self.prune:
            return True
        s = z3.Solver()
        s.set('timeout', 20000)
        s.add(*pc)
        return str(s.check()) != 'unsat'

    def _call(self, ctx, fdef, actuals, depth):
        if depth > 6:
            raise Unsupported('call depth')
        a = fdef.args
        params = [x.arg for x in a.args]
        if a.vararg or a.kwarg or a.kwonlyargs:
            raise Unsupported('signature of %s' % fdef.name)
        if params and params[0] == 'self' and len(actuals) == len(params) - 1:
            actuals = [None] + actuals
        defaults = [self._const_default(d) for d in a.defaults]
        if len(actuals) < len(params):
            missing = len(params) - len(actuals)
            if missing > len(defaults):
                raise Unsupported('arity of %s' % fdef.name)
            actuals = actuals + defaults[len(defaults) - missing:]
        if len(actuals) != len(params):
            raise Unsupported('arity of %s' % fdef.name)
        env = dict(zip(params, actuals))
        for c, e, out in self._block(ctx, fdef.body, env, depth):
            yield c, (None if out is _FALLTHROUGH else out)

    @staticmethod
    def _const_default(d):
        if isinstance(d, ast.Constant):
            return d.value
        raise Unsupported('non-constant default')

    # -- statements: generator of (ctx, env, outcome) where outcome is _FALLTHROUGH or a returned value / Raised
    def _block(self, ctx, stmts, env, depth):
        if not stmts:
            yield ctx, env, _FALLTHROUGH
            return
        st, rest = stmts[0], stmts[1:]
        for c, e, out in self._stmt(ctx, st, env, depth):
            if out is _FALLTHROUGH:
                for x in self._block(c, rest, e, depth):
                    yield x
            else:
                yield c, e, out

    def _stmt(self, ctx, st, env, depth):
        if isinstance(st, ast.Expr) and isinstance(st.value, ast.Constant):
            yield ctx, env, _FALLTHROUGH
        elif isinstance(st, ast.Pass):
            yield ctx, env, _FALLTHROUGH
        elif isinstance(st, ast.Assign) and len(st.targets) == 1 and isinstance(st.targets[0], ast.Name):
            for c, v in self._expr(ctx, st.value, env, depth):
                e = dict(env)
                e[st.targets[0].id] = v
                yield c, e, _FALLTHROUGH
        elif isinstance(st, ast.Assign) and len(st.targets) == 1 and isinstance(st.targets[0], ast.Tuple) and \
                all(isinstance(x, ast.Name) for x in st.targets[0].elts):
            for c, v in self._expr(ctx, st.value, env, depth):
                if not isinstance(v, (list, tuple)) or len(v) != len(st.targets[0].elts):
                    raise Unsupported('unpacking')
                e = dict(env)
                for nm, x in zip(st.targets[0].elts, v):
                    e[nm.id] = x
                yield c, e, _FALLTHROUGH
        elif isinstance(st, ast.AugAssign) and isinstance(st.target, ast.Name) and isinstance(st.op, ast.Add):
            for c, v in self._expr(ctx, st.value, env, depth):
                e = dict(env)
                e[st.target.id] = self._add(env[st.target.id], v)
                yield c, e, _FALLTHROUGH
        elif isinstance(st, ast.Return):
            if st.value is None:
                yield ctx, env, None
            else:
                for c, v in self._expr(ctx, st.value, env, depth):
                    yield c, env, v
        elif isinstance(st, ast.Raise):
            name = 'Exception'
            x = st.exc
            if isinstance(x, ast.Call):
                x = x.func
            if isinstance(x, ast.Name):
                name = x.id
            elif isinstance(x, ast.Attribute):
                name = x.attr
            yield ctx, env, Raised(name)
        elif isinstance(st, ast.If):
            for c, cond in self._cond(ctx, st.test, env, depth):
                for c2, taken in self._fork(c, cond):
                    for x in self._block(c2, st.body if taken else st.orelse, env, depth):
                        yield x
        else:
            raise Unsupported('statement %s at line %d' % (type(st).__name__, st.lineno))

    def _fork(self, ctx, cond):
        if isinstance(cond, bool):
            yield ctx, cond
            return
        for val, t in ((True, cond), (False, z3.Not(cond))):
            pc = ctx.pc + [t]
            if self.feasible(pc):
                yield Ctx(self, pc, ctx.calls), val

    def _cond(self, ctx, node, env, depth):
        """-> (ctx, bool-or-z3) for a test expression (short-circuit operators fork)"""
        for c, v in self._expr(ctx, node, env, depth):
            yield c, truth(v)

    # -- expressions: generator of (ctx, value)
    def _expr(self, ctx, node, env, depth):
        if isinstance(node, ast.Constant):
            yield ctx, node.value
        elif isinstance(node, ast.Name):
            if node.id in env:
                yield ctx, env[node.id]
            elif node.id in ('True', 'False', 'None'):
                yield ctx, {'True': True, 'False': False, 'None': None}[node.id]
            elif isinstance(getattr(self.mod, node.id, _MISSING), (str, int, bool, type(None))):
                yield ctx, getattr(self.mod, node.id)
            else:
                raise Unsupported('name %s' % node.id)
        elif isinstance(node, (ast.List, ast.Tuple)):
            for c, vals in self._exprs(ctx, node.elts, env, depth):
                yield c, (list(vals) if isinstance(node, ast.List) else tuple(vals))
        elif isinstance(node, ast.BinOp) and isinstance(node.op, ast.Add):
            for c, (a, b) in self._exprs(ctx, [node.left, node.right], env, depth):
                yield c, self._add(a, b)
        elif isinstance(node, ast.BinOp) and isinstance(node.op, ast.Sub):
            for c, (a, b) in self._exprs(ctx, [node.left, node.right], env, depth):
                yield c, (a - b if isinstance(a, int) and isinstance(b, int) else I(zi(a) - zi(b)))
        elif isinstance(node, ast.BinOp) and isinstance(node.op, ast.Mod):
            for c, (a, b) in self._exprs(ctx, [node.left, node.right], env, depth):
                for x in self._format(c, a, b):
                    yield x
        elif isinstance(node, ast.UnaryOp) and isinstance(node.op, ast.Not):
            for c, v in self._cond(ctx, node.operand, env, depth):
                yield c, (not v) if isinstance(v, bool) else B(z3.Not(v))
        elif isinstance(node, ast.UnaryOp) and isinstance(node.op, ast.USub):
            for c, v in self._expr(ctx, node.operand, env, depth):
                yield c, (-v if isinstance(v, int) else I(-zi(v)))
        elif isinstance(node, ast.BoolOp):
            for x in self._boolop(ctx, node, env, depth):
                yield x
        elif isinstance(node, ast.IfExp):
            for c, cond in self._cond(ctx, node.test, env, depth):
                for c2, taken in self._fork(c, cond):
                    for x in self._expr(c2, node.body if taken else node.orelse, env, depth):
                        yield x
        elif isinstance(node, ast.Compare):
            for x in self._compare(ctx, node, env, depth):
                yield x
        elif isinstance(node, ast.Subscript):
            for x in self._subscript(ctx, node, env, depth):
                yield x
        elif isinstance(node, ast.Attribute):
            dotted = _dotted(node)
            if dotted in ('os.path.sep', 'os.sep', 'posixpath.sep'):
                yield ctx, '/'
            else:
                raise Unsupported('attribute %s' % dotted)
        elif isinstance(node, ast.Call):
            for x in self._callexpr(ctx, node, env, depth):
                yield x
        else:
            raise Unsupported('expression %s at line %d' % (type(node).__name__, node.lineno))

    def _exprs(self, ctx, nodes, env, depth):
        if not nodes:
            yield ctx, []
            return
        for c, v in self._expr(ctx, nodes[0], env, depth):
            for c2, vs in self._exprs(c, nodes[1:], env, depth):
                yield c2, [v] + vs

    @staticmethod
    def _add(a, b):
        if isinstance(a, (S, str)) and isinstance(b, (S, str)):
            if isinstance(a, str) and isinstance(b, str):
                return a + b
            return S(z3.Concat(zs(a), zs(b)))
        if isinstance(a, (I, int)) and isinstance(b, (I, int)):
            if isinstance(a, int) and isinstance(b, int):
                return a + b
            return I(zi(a) + zi(b))
        if isinstance(a, list) and isinstance(b, list):
            return a + b
        raise Unsupported('+ of %r and %r' % (a, b))

    def _format(self, ctx, fmt, arg):
        if not isinstance(fmt, str):
            raise Unsupported('symbolic format string')
        parts = []
        i = 0
        pos = 0
        seq = arg if isinstance(arg, tuple) else (arg,)
        lit = ''
        while i < len(fmt):
            ch = fmt[i]
            if ch != '%':
                lit += ch
                i += 1
                continue
            if fmt[i:i + 2] == '%%':
                lit += '%'
                i += 2
                continue
            if lit:
                parts.append(lit)
                lit = ''
            if fmt[i + 1:i + 2] == '(':
                j = fmt.index(')', i)
                key = fmt[i + 2:j]
                if fmt[j + 1:j + 2] != 's':
                    raise Unsupported('conversion in %r' % fmt)
                if not isinstance(arg, D):
                    raise Unsupported('%(key)s needs a dict')
                if key not in arg.entries:
                    yield ctx, Raised('KeyError')
                    return
                present, val = arg.entries[key]
                ok = False
                for c2, taken in self._fork(ctx, present if not isinstance(present, bool) else present):
                    if not taken:
                        yield c2, Raised('KeyError')
                    else:
                        ctx = c2
                        ok = True
                if not ok:
                    return
                parts.append(val)
                i = j + 2
            elif fmt[i + 1:i + 2] == 's':
                if pos >= len(seq):
                    yield ctx, Raised('TypeError')
                    return
                v = seq[pos]
                pos += 1
                if isinstance(v, (I, int)) and not isinstance(v, bool):
                    v = str(v) if isinstance(v, int) else S(z3.IntToStr(v.t))  # (negative ints: IntToStr gives '')
                    if isinstance(v, S):
                        raise Unsupported('%s of a symbolic int')
                if not isinstance(v, (S, str)):
                    raise Unsupported('%%s of %r' % (v,))
                parts.append(v)
                i += 2
            else:
                raise Unsupported('conversion in %r' % fmt)
        if lit:
            parts.append(lit)
        out = ''
        for p in parts:
            out = self._add(out, p) if not (out == '' and isinstance(p, S)) else p
        yield ctx, out

    def _boolop(self, ctx, node, env, depth):
        """Python semantics: the value of the deciding operand"""
        is_and = isinstance(node.op, ast.And)

        def go(c, nodes):
            for c1, v in self._expr(c, nodes[0], env, depth):
                if len(nodes) == 1:
                    yield c1, v
                    continue
                for c2, taken in self._fork(c1, truth(v)):
                    if taken != is_and:  # and: falsy decides; or: truthy decides
                        yield c2, v
                    else:
                        for x in go(c2, nodes[1:]):
                            yield x
        for x in go(ctx, node.values):
            yield x

    def _compare(self, ctx, node, env, depth):
        if len(node.ops) != 1:
            raise Unsupported('chained comparison')
        op = node.ops[0]
        for c, (a, b) in self._exprs(ctx, [node.left, node.comparators[0]], env, depth):
            if isinstance(op, (ast.Eq, ast.NotEq)):
                r = eq(a, b)
                if isinstance(op, ast.NotEq):
                    r = znot(r)
            elif isinstance(op, (ast.In, ast.NotIn)):
                if isinstance(b, D):
                    if not isinstance(a, str):
                        raise Unsupported('symbolic key')
                    r = b.entries[a][0] if a in b.entries else False
                elif isinstance(b, (S, str)) and isinstance(a, (S, str)):
                    r = (a in b) if isinstance(a, str) and isinstance(b, str) else z3.Contains(zs(b), zs(a))
                elif isinstance(b, (list, tuple)):
                    parts = [eq(a, x) for x in b]
                    r = True if any(p is True for p in parts) else (z3.Or(*[p for p in parts if p is not False]) if any(p is not False for p in parts) else False)
                else:
                    raise Unsupported('in %r' % (b,))
                if isinstance(op, ast.NotIn):
                    r = znot(r)
            elif isinstance(op, (ast.Is, ast.IsNot)):
                if a is None or b is None:
                    r = (a is None and b is None)
                    if isinstance(a, (S, B, I, D)) or isinstance(b, (S, B, I, D)):
                        r = False
                else:
                    raise Unsupported('is')
                if isinstance(op, ast.IsNot):
                    r = not r
            elif isinstance(op, (ast.Lt, ast.LtE, ast.Gt, ast.GtE)):
                x, y = zi(a), zi(b)
                r = {ast.Lt: x < y, ast.LtE: x <= y, ast.Gt: x > y, ast.GtE: x >= y}[type(op)]
                if isinstance(a, int) and isinstance(b, int):
                    r = bool(z3.simplify(r))
            else:
                raise Unsupported('comparison operator')
            yield c, (r if isinstance(r, bool) else B(r))

    def _subscript(self, ctx, node, env, depth):
        for c, v in self._expr(ctx, node.value, env, depth):
            sl = node.slice
            if isinstance(v, D):
                for c2, k in self._expr(c, sl, env, depth):
                    if not isinstance(k, str):
                        raise Unsupported('symbolic key')
                    if k not in v.entries:
                        yield c2, Raised('KeyError')
                        continue
                    present, val = v.entries[k]
                    for c3, taken in self._fork(c2, present):
                        yield c3, (val if taken else Raised('KeyError'))
                continue
            if isinstance(v, (list, tuple)):
                for c2, k in self._expr(c, sl, env, depth):
                    if not isinstance(k, int):
                        raise Unsupported('symbolic index into a list')
                    yield c2, (v[k] if -len(v) <= k < len(v) else Raised('IndexError'))
                continue
            if isinstance(sl, ast.Slice):
                if sl.step is not None:
                    raise Unsupported('slice step')
                for c2, (lo, hi) in self._exprs(c, [sl.lower or ast.Constant(None), sl.upper or ast.Constant(None)], env, depth):
                    yield c2, self._slice(v, lo, hi)
                continue
            for c2, k in self._expr(c, sl, env, depth):
                t = zs(v)
                n = z3.Length(t)
                ki = zi(k)
                idx = z3.If(ki < 0, n + ki, ki)
                for c3, taken in self._fork(c2, z3.And(idx >= 0, idx < n)):
                    yield c3, (S(z3.SubString(t, idx, 1)) if taken else Raised('IndexError'))

    @staticmethod
    def _slice(v, lo, hi):
        t = zs(v)
        n = z3.Length(t)

        def clamp(k, default):
            if k is None:
                return default
            ki = zi(k)
            ki = z3.If(ki < 0, z3.If(n + ki < 0, z3.IntVal(0), n + ki), z3.If(ki > n, n, ki))
            return ki
        a, b = clamp(lo, z3.IntVal(0)), clamp(hi, n)
        return S(z3.If(b > a, z3.SubString(t, a, b - a), z3.StringVal('')))

    def _callexpr(self, ctx, node, env, depth):
        if node.keywords:
            raise Unsupported('keyword arguments at line %d' % node.lineno)
        f = node.func
        dotted = _dotted(f) if isinstance(f, (ast.Attribute, ast.Name)) else None
        # os.path.*
        if dotted and dotted.rsplit('.', 1)[0] in ('os.path', 'posixpath') and dotted.rsplit('.', 1)[1] in ('basename', 'dirname', 'join', 'split'):
            name = dotted.rsplit('.', 1)[1]
            for c, args in self._exprs(ctx, node.args, env, depth):
                if name == 'split':
                    h, t = px_split(c, args[0])
                    yield c, (h, t)
                else:
                    yield c, OSPATH[name](c, *args)
            return
        if isinstance(f, ast.Name):
            if f.id == 'len' and len(node.args) == 1:
                for c, v in self._expr(ctx, node.args[0], env, depth):
                    if isinstance(v, (str, list, tuple)):
                        yield c, len(v)
                    else:
                        yield c, I(z3.Length(zs(v)))
                return
            if f.id == 'str' and len(node.args) == 1:
                for c, v in self._expr(ctx, node.args[0], env, depth):
                    if isinstance(v, (S, str)):
                        yield c, v
                    else:
                        raise Unsupported('str() of %r' % (v,))
                return
            if f.id in self.free or (dotted in self.free):
                for x in self._freecall(ctx, f.id, node.args, env, depth):
                    yield x
                return
            if f.id in self.funcs:
                for c, args in self._exprs(ctx, node.args, env, depth):
                    for x in self._call(c, self.funcs[f.id], list(args), depth + 1):
                        yield x
                return
            raise Unsupported('call of %s' % f.id)
        if isinstance(f, ast.Attribute):
            if dotted in self.free:
                for x in self._freecall(ctx, dotted, node.args, env, depth):
                    yield x
                return
            # self.method(...) / Class.method(...) defined in this module
            if isinstance(f.value, ast.Name) and f.value.id in ('self', 'cls') and f.attr in self.funcs:
                for c, args in self._exprs(ctx, node.args, env, depth):
                    fd = self.funcs[f.attr]
                    static = any(isinstance(d, ast.Name) and d.id == 'staticmethod' for d in fd.decorator_list)
                    for x in self._call(c, fd, list(args) if static else [None] + list(args), depth + 1):
                        yield x
                return
            for c, recv in self._expr(ctx, f.value, env, depth):
                for c2, args in self._exprs(c, node.args, env, depth):
                    yield c2, self._method(c2, recv, f.attr, args)
            return
        raise Unsupported('call at line %d' % node.lineno)

    def _freecall(self, ctx, name, argnodes, env, depth):
        for c, args in self._exprs(ctx, argnodes, env, depth):
            res = c.fresh(name.replace('.', '_'))
            c2 = Ctx(self, c.pc, c.calls + [(name, tuple(args), res)])
            yield c2, S(res)

    def _method(self, ctx, recv, name, args):
        if isinstance(recv, D):
            if name == 'get' and 1 <= len(args) <= 2 and isinstance(args[0], str):
                default = args[1] if len(args) == 2 else None
                if args[0] not in recv.entries:
                    return default
                present, val = recv.entries[args[0]]
                if present is True:
                    return val
                if present is False:
                    return default
                if isinstance(val, (S, str)) and isinstance(default, (S, str)):
                    return S(z3.If(present, zs(val), zs(default)))
                if default is None and isinstance(val, (S, str)):
                    return Opt(present, val)
                raise Unsupported('dict.get with default %r' % (default,))
            raise Unsupported('dict method %s' % name)
        if isinstance(recv, (S, str)):
            if isinstance(recv, str) and all(isinstance(a, (str, int)) for a in args) and name in ('startswith', 'endswith', 'find', 'rfind', 'replace', 'strip', 'rstrip', 'lstrip', 'lower', 'upper'):
                return getattr(recv, name)(*args)
            t = zs(recv)
            if name == 'startswith' and len(args) == 1:
                return B(z3.PrefixOf(zs(args[0]), t))
            if name == 'endswith' and len(args) == 1:
                return B(z3.SuffixOf(zs(args[0]), t))
            if name == 'find' and len(args) == 1:
                return I(z3.IndexOf(t, zs(args[0]), 0))
            if name == 'rfind' and len(args) == 1:
                return I(z3.LastIndexOf(t, zs(args[0])))
            if name == 'replace' and len(args) == 3 and args[2] == 1:
                return S(z3.Replace(t, zs(args[0]), zs(args[1])))
            raise Unsupported('str method %s%r' % (name, tuple(type(a).__name__ for a in args)))
        raise Unsupported('method %s on %r' % (name, recv))


class Opt(object):
    """value of d.get(k): the string when present, else None"""

    def __init__(self, present, val):
        self.present, self.val = present, val


_truth0 = truth


def truth(v):  # noqa: F811  (extends the first definition with Opt)
    if isinstance(v, Opt):
        return z3.And(v.present, z3.Length(zs(v.val)) > 0)
    return _truth0(v)


_FALLTHROUGH = object()
_MISSING = object()


def _dotted(node):
    if isinstance(node, ast.Name):
        return node.id
    if isinstance(node, ast.Attribute):
        return _dotted(node.value) + '.' + node.attr
    raise Unsupported('callee')


# ------------------------------------------------------------------------------ deciding and validating
def decide(leaves, violated, timeout_ms=60000, extra=()):
    """for every leaf: pc and violated(outcome, calls) must be unsat.
    -> (verdict 'unsat'|'sat'|'unknown', model or None, stats)"""
    n = 0
    t = 0.0
    import time
    for pc, out, calls in leaves:
        bad = violated(out, calls)
        if bad is False:
            continue
        s = z3.Solver()
        s.set('timeout', timeout_ms)
        s.add(*pc)
        s.add(*extra)
        if bad is not True:
            s.add(bad)
        t0 = time.time()
        r = str(s.check())
        t += time.time() - t0
        n += 1
        if r == 'sat':
            return 'sat', s.model(), {'queries': n, 'solver_s': round(t, 3), 'leaves': len(leaves)}
        if r != 'unsat':
            return 'unknown', None, {'queries': n, 'solver_s': round(t, 3), 'leaves': len(leaves), 'reason': s.reason_unknown()}
    return 'unsat', None, {'queries': n, 'solver_s': round(t, 3), 'leaves': len(leaves)}


def model_str(model, var, default=''):
    v = model.eval(var, model_completion=True)
    try:
        return v.as_string()
    except Exception:
        return default

"""Z-codec: flat bit-vector encoding of  quote_fn(s, safe)  followed by
unquote_fn(.)  for strings of up to N code points (21-bit), bytes as 8-bit
vectors.  Everything is ITE-merged (no path forking), so one z3 query covers
every string within the bound.

The model of the stdlib functions is validated against the real urllib.parse on
a concrete corpus (``validate``) every time it is used; every `sat` answer is
replayed on the real functions by the caller before it is believed.
"""
import time
import urllib.parse

from z3 import (And, BitVec, BitVecVal, Concat, Extract, If, Not, Or, Solver, UGE, UGT, ULE, ULT, ZeroExt, sat, unsat)

ALWAYS = 'ABCDEFGHIJKLMNOPQRSTUVWXYZabcdefghijklmnopqrstuvwxyz0123456789_.-~'
CP = 21


def _hexd(n4):
    n = ZeroExt(4, n4)
    return If(ULT(n, 10), n + 48, n + 55)


def _utf8(x):
    z = BitVecVal(0, 8)
    b1 = [Extract(7, 0, x), z, z, z]
    b2 = [Concat(BitVecVal(0b110, 3), Extract(10, 6, x)), Concat(BitVecVal(0b10, 2), Extract(5, 0, x)), z, z]
    b3 = [Concat(BitVecVal(0b1110, 4), Extract(15, 12, x)), Concat(BitVecVal(0b10, 2), Extract(11, 6, x)),
          Concat(BitVecVal(0b10, 2), Extract(5, 0, x)), z]
    b4 = [Concat(BitVecVal(0b11110, 5), Extract(20, 18, x)), Concat(BitVecVal(0b10, 2), Extract(17, 12, x)),
          Concat(BitVecVal(0b10, 2), Extract(11, 6, x)), Concat(BitVecVal(0b10, 2), Extract(5, 0, x))]
    k1, k2, k3 = ULT(x, 0x80), ULT(x, 0x800), ULT(x, 0x10000)
    nb = If(k1, BitVecVal(1, 8), If(k2, BitVecVal(2, 8), If(k3, BitVecVal(3, 8), BitVecVal(4, 8))))
    bs = [If(k1, b1[j], If(k2, b2[j], If(k3, b3[j], b4[j]))) for j in range(4)]
    return nb, bs


def _hexval(x):
    return If(And(UGE(x, 48), ULE(x, 57)), x - 48,
              If(And(UGE(x, 65), ULE(x, 70)), x - 55, If(And(UGE(x, 97), ULE(x, 102)), x - 87, BitVecVal(255, 8))))


class Model(object):
    pass


def encode_quote(N, safe, plus):
    """symbolic string c[0:L] -> flat quoted symbols q[0:QL] (all ASCII)"""
    m = Model()
    m.N = N
    m.M = 12 * N
    m.c = [BitVec('c%d' % i, CP) for i in range(N)]
    m.L = BitVec('L', 8)
    m.domain = [ULE(m.L, N)]
    for i in range(N):
        m.domain += [ULE(m.c[i], 0x10FFFF), Or(ULT(m.c[i], 0xD800), UGT(m.c[i], 0xDFFF)), m.c[i] != 0]
    safe_set = ALWAYS + safe + (' ' if plus else '')
    blk, blen = [], []
    for i in range(N):
        nb, bs = _utf8(m.c[i])
        safe_i = And(ULT(m.c[i], 0x80), Or([m.c[i] == ord(ch) for ch in safe_set]))
        syms = []
        for j in range(4):
            syms += [BitVecVal(ord('%'), 8), _hexd(Extract(7, 4, bs[j])), _hexd(Extract(3, 0, bs[j]))]
        lit = Extract(7, 0, m.c[i])
        if plus:
            lit = If(lit == 32, BitVecVal(ord('+'), 8), lit)
        syms[0] = If(safe_i, lit, syms[0])
        blk.append(syms)
        blen.append(If(ULE(m.L, i), BitVecVal(0, 8), If(safe_i, BitVecVal(1, 8), nb * 3)))
    off = [BitVecVal(0, 8)]
    for i in range(N):
        off.append(off[-1] + blen[i])
    m.QL = off[N]
    m.q = []
    for j in range(m.M):
        e = BitVecVal(0, 8)
        for i in range(N):
            for k in range(12):
                e = If(And(off[i] + k == j, ULT(BitVecVal(k, 8), blen[i])), blk[i][k], e)
        m.q.append(e)
    return m


def encode_unquote(q, QL, M, NOUT, plus):
    """flat ASCII symbols q[0:QL] -> code points r[0:RL]; returns (r, RL, clean) where clean means the
    UTF-8 decoder ended in its start state without emitting a replacement character"""
    byts, bvalid = [], []
    skip = BitVecVal(0, 2)
    for j in range(M):
        inr = ULT(BitVecVal(j, 8), QL)
        h1 = _hexval(q[j + 1]) if j + 1 < M else BitVecVal(255, 8)
        h2 = _hexval(q[j + 2]) if j + 2 < M else BitVecVal(255, 8)
        has2 = ULT(BitVecVal(j + 2, 8), QL)
        isesc = And(q[j] == ord('%'), has2, h1 != 255, h2 != 255)
        lit = If(q[j] == ord('+'), BitVecVal(32, 8), q[j]) if plus else q[j]
        emit = And(inr, skip == 0)
        byts.append(If(isesc, (h1 << 4) | h2, lit))
        bvalid.append(emit)
        skip = If(skip != 0, skip - 1, If(And(inr, isesc), BitVecVal(2, 2), BitVecVal(0, 2)))
    need = BitVecVal(0, 3)
    acc = BitVecVal(0, CP)
    lo = BitVecVal(0x80, 8)
    hi = BitVecVal(0xBF, 8)
    outs = []
    replaced = []
    for j in range(M):
        b = byts[j]
        v = bvalid[j]
        b21 = ZeroExt(CP - 8, b)
        start = need == 0
        ascii_ = ULT(b, 0x80)
        l2 = And(UGE(b, 0xC2), ULE(b, 0xDF))
        l3 = And(UGE(b, 0xE0), ULE(b, 0xEF))
        l4 = And(UGE(b, 0xF0), ULE(b, 0xF4))
        cont_ok = And(UGE(b, lo), ULE(b, hi))
        emit_ascii = And(v, start, ascii_)
        emit_bad_start = And(v, start, Not(ascii_), Not(l2), Not(l3), Not(l4))
        acc2 = (acc << 6) | (b21 & 0x3F)
        fin = And(v, Not(start), cont_ok, need == 1)
        bad_cont = And(v, Not(start), Not(cont_ok))
        outs.append((Or(emit_ascii, emit_bad_start, fin, bad_cont), If(emit_ascii, b21, If(fin, acc2, BitVecVal(0xFFFD, CP)))))
        replaced.append(Or(emit_bad_start, bad_cont))
        nneed = If(Not(v), need, If(start, If(l2, BitVecVal(1, 3), If(l3, BitVecVal(2, 3), If(l4, BitVecVal(3, 3), BitVecVal(0, 3)))),
                                    If(cont_ok, need - 1, BitVecVal(0, 3))))
        nacc = If(Not(v), acc, If(start, If(l2, b21 & 0x1F, If(l3, b21 & 0x0F, b21 & 0x07)), acc2))
        nlo = If(And(v, start), If(b == 0xE0, BitVecVal(0xA0, 8), If(b == 0xF0, BitVecVal(0x90, 8), BitVecVal(0x80, 8))),
                 If(v, BitVecVal(0x80, 8), lo))
        nhi = If(And(v, start), If(b == 0xED, BitVecVal(0x9F, 8), If(b == 0xF4, BitVecVal(0x8F, 8), BitVecVal(0xBF, 8))),
                 If(v, BitVecVal(0xBF, 8), hi))
        need, acc, lo, hi = nneed, nacc, nlo, nhi
    cnt = BitVecVal(0, 8)
    r = [BitVecVal(0, CP) for _ in range(NOUT)]
    for (v, cp) in outs:
        r = [If(And(v, cnt == k), cp, r[k]) for k in range(NOUT)]
        cnt = If(v, cnt + 1, cnt)
    clean = And(need == 0, Not(Or(replaced)))
    return r, cnt, clean


def _string_of(model, m):
    l = model.eval(m.L, model_completion=True).as_long()
    return ''.join(chr(model.eval(m.c[i], model_completion=True).as_long()) for i in range(l))


def roundtrip(N, safe='/', quote_plus=False, unquote_plus=False, timeout_ms=600000):
    """unsat <=> for every string of 1..N code points: unquote_fn(quote_fn(s, safe)) == s"""
    m = encode_quote(N, safe, quote_plus)
    r, RL, clean = encode_unquote(m.q, m.QL, m.M, N + 1, unquote_plus)
    same = And(RL == m.L, clean, *[Or(ULE(m.L, i), r[i] == m.c[i]) for i in range(N)])
    s = Solver()
    s.set('timeout', timeout_ms)
    s.add(*m.domain)
    s.add(UGE(m.L, 1))
    s.add(Not(same))
    t0 = time.time()
    res = s.check()
    out = {'verdict': str(res), 'solver_s': round(time.time() - t0, 2), 'queries': 1}
    if res == sat:
        out['model'] = {'s': _string_of(s.model(), m)}
    return out


def alphabet(N, safe='/', quote_plus=False, timeout_ms=600000):
    """unsat <=> every symbol of quote_fn(s, safe) is unreserved, '/', or part of a %HH triple with
    upper-case hex digits (so in particular never a newline)"""
    m = encode_quote(N, safe, quote_plus)
    allowed = ALWAYS + '/'
    bad = []
    for j in range(m.M):
        inr = ULT(BitVecVal(j, 8), m.QL)
        okc = Or([m.q[j] == ord(ch) for ch in allowed])
        pct = m.q[j] == ord('%')
        hexu = lambda x: Or(And(UGE(x, 48), ULE(x, 57)), And(UGE(x, 65), ULE(x, 70)))
        trip = And(pct, ULT(BitVecVal(j + 2, 8), m.QL), hexu(m.q[j + 1]) if j + 1 < m.M else False,
                   hexu(m.q[j + 2]) if j + 2 < m.M else False)
        after1 = And(j >= 1, m.q[j - 1] == ord('%')) if j >= 1 else False
        after2 = And(j >= 2, m.q[j - 2] == ord('%')) if j >= 2 else False
        bad.append(And(inr, Not(Or(okc, trip, And(hexu(m.q[j]), Or(after1, after2))))))
    s = Solver()
    s.set('timeout', timeout_ms)
    s.add(*m.domain)
    s.add(UGE(m.L, 1))
    s.add(Or(bad))
    t0 = time.time()
    res = s.check()
    out = {'verdict': str(res), 'solver_s': round(time.time() - t0, 2), 'queries': 1}
    if res == sat:
        out['model'] = {'s': _string_of(s.model(), m)}
    return out


def decoder_vs_spec(Mq, unquote_plus=False, timeout_ms=600000):
    """unsat <=> for every ASCII text q of 1..Mq symbols without NUL: the observed unquote function
    decodes it exactly like the spec decoder (%HH -> byte, everything else literal, bytes as UTF-8)"""
    q = [BitVec('q%d' % j, 8) for j in range(Mq)]
    QL = BitVec('QL', 8)
    dom = [ULE(QL, Mq), UGE(QL, 1)] + [And(ULT(x, 0x80), x != 0) for x in q]
    r1, n1, c1 = encode_unquote(q, QL, Mq, Mq + 1, unquote_plus)
    r2, n2, c2 = encode_unquote(q, QL, Mq, Mq + 1, False)
    same = And(n1 == n2, *[r1[i] == r2[i] for i in range(Mq + 1)])
    s = Solver()
    s.set('timeout', timeout_ms)
    s.add(*dom)
    s.add(Not(same))
    t0 = time.time()
    res = s.check()
    out = {'verdict': str(res), 'solver_s': round(time.time() - t0, 2), 'queries': 1}
    if res == sat:
        mdl = s.model()
        l = mdl.eval(QL, model_completion=True).as_long()
        out['model'] = {'q': ''.join(chr(mdl.eval(q[j], model_completion=True).as_long()) for j in range(l))}
    return out


# ------------------------------------------------------------------ validation
def corpus():
    cls = [1, 9, 10, 13, 32, 35, 37, 43, 45, 47, 48, 57, 61, 63, 65, 70, 71, 91, 95, 97, 102, 126, 127, 0x80, 0xE9, 0x7FF, 0x800,
           0xD7FF, 0xE000, 0xFFFD, 0xFFFF, 0x10000, 0x10FFFF]
    out = [chr(a) for a in cls]
    for a in cls[::2]:
        for b in cls[1::3]:
            out.append(chr(a) + chr(b))
    out += ['%41', '%4', 'a%2fb', '%e9', '+ +', 'x%%y', '/./', '\n\r\t']
    return out


def validate(N=3, safe='/', quote_plus=False, unquote_plus=False):
    """evaluate the z3 model on concrete strings and compare with the real urllib.parse"""
    qf = urllib.parse.quote_plus if quote_plus else urllib.parse.quote
    uf = urllib.parse.unquote_plus if unquote_plus else urllib.parse.unquote
    m = encode_quote(N, safe, quote_plus)
    r, RL, clean = encode_unquote(m.q, m.QL, m.M, N + 1, unquote_plus)
    s = Solver()
    s.add(*m.domain)
    bad = []
    n = 0
    for text in corpus():
        if len(text) > N:
            continue
        n += 1
        s.push()
        s.add(m.L == len(text))
        for i, ch in enumerate(text):
            s.add(m.c[i] == ord(ch))
        if s.check() != sat:
            bad.append(('domain', text))
            s.pop()
            continue
        mdl = s.model()
        ql = mdl.eval(m.QL, model_completion=True).as_long()
        qs = ''.join(chr(mdl.eval(m.q[j], model_completion=True).as_long()) for j in range(ql))
        rl = mdl.eval(RL, model_completion=True).as_long()
        rs = ''.join(chr(mdl.eval(r[k], model_completion=True).as_long()) for k in range(min(rl, N + 1)))
        if qs != qf(text, safe):
            bad.append(('quote', text, qs, qf(text, safe)))
        elif rs != uf(qs):
            bad.append(('unquote', qs, rs, uf(qs)))
        s.pop()
    return n, bad

"""Z-template: translate the Python AST of trashcli/put/format_trash_info.py
into a z3 *string* term over free variables standing for the results of the
library calls (the quoter, strftime), so that the shape of every .trashinfo
ever written is decided for ALL quoter outputs / dates by one z3 query.

Supported subset (anything else raises Unsupported -> the check is
inconclusive, never green): string constants, ``+``, ``%`` with ``%s``
conversions only, parenthesised expressions, assignments to local names,
``return``, calls of module-level functions of the same file (inlined), the
call of an imported function bound in the module namespace (-> free variable,
identity and constant arguments recorded), ``<expr>.strftime(<const>)`` (-> free
variable, format recorded), ``<expr>.encode(<const>)`` (identity on the text,
encoding recorded).
"""
import ast
import importlib
import io

import z3


class Unsupported(Exception):
    pass


class Translation(object):
    def __init__(self):
        self.term = None
        self.free = {}  # name -> z3 var
        self.calls = []  # (kind, detail)
        self.encoding = None


def translate(module_name, func_name, arg_names):
    mod = importlib.import_module(module_name)
    with io.open(mod.__file__, 'r', encoding='utf-8') as f:
        src = f.read()
    tree = ast.parse(src)
    funcs = {n.name: n for n in tree.body if isinstance(n, ast.FunctionDef)}
    if func_name not in funcs:
        raise Unsupported('no function %s in %s' % (func_name, module_name))
    tr = Translation()
    env = {a: ('arg', a) for a in arg_names}
    tr.term = _inline(tr, mod, funcs, funcs[func_name], [env[a] for a in arg_names], 0)
    return tr


def _inline(tr, mod, funcs, fdef, actuals, depth):
    if depth > 8:
        raise Unsupported('recursion')
    params = [a.arg for a in fdef.args.args]
    if len(params) != len(actuals) or fdef.args.vararg or fdef.args.kwarg or fdef.args.kwonlyargs or fdef.args.defaults:
        raise Unsupported('signature of %s' % fdef.name)
    env = dict(zip(params, actuals))
    for st in fdef.body:
        if isinstance(st, ast.Expr) and isinstance(st.value, ast.Constant) and isinstance(st.value.value, str):
            continue  # docstring
        if isinstance(st, ast.Assign) and len(st.targets) == 1 and isinstance(st.targets[0], ast.Name):
            env[st.targets[0].id] = _expr(tr, mod, funcs, st.value, env, depth)
            continue
        if isinstance(st, ast.Return) and st.value is not None:
            return _expr(tr, mod, funcs, st.value, env, depth)
        raise Unsupported('statement %s in %s' % (type(st).__name__, fdef.name))
    raise Unsupported('%s does not return' % fdef.name)


def _fresh(tr, base):
    n = '%s%d' % (base, len(tr.free))
    v = z3.String(n)
    tr.free[n] = v
    return v


def _expr(tr, mod, funcs, e, env, depth):
    if isinstance(e, ast.Constant) and isinstance(e.value, str):
        return ('str', z3.StringVal(e.value))
    if isinstance(e, ast.Name):
        if e.id in env:
            return env[e.id]
        raise Unsupported('free name %s' % e.id)
    if isinstance(e, ast.BinOp) and isinstance(e.op, ast.Add):
        l, r = _expr(tr, mod, funcs, e.left, env, depth), _expr(tr, mod, funcs, e.right, env, depth)
        return ('str', z3.Concat(_s(l), _s(r)))
    if isinstance(e, ast.BinOp) and isinstance(e.op, ast.Mod):
        if not (isinstance(e.left, ast.Constant) and isinstance(e.left.value, str)):
            raise Unsupported('% with a non-constant format')
        fmt = e.left.value
        if isinstance(e.right, ast.Tuple):
            vals = [_expr(tr, mod, funcs, x, env, depth) for x in e.right.elts]
        else:
            vals = [_expr(tr, mod, funcs, e.right, env, depth)]
        parts = fmt.split('%s')
        if len(parts) != len(vals) + 1 or any('%' in p.replace('%%', '') for p in parts):
            raise Unsupported('format %r' % fmt)
        out = z3.StringVal(parts[0].replace('%%', '%'))
        for v, p in zip(vals, parts[1:]):
            out = z3.Concat(out, _s(v), z3.StringVal(p.replace('%%', '%')))
        return ('str', out)
    if isinstance(e, ast.Call):
        if isinstance(e.func, ast.Name):
            if e.keywords:
                raise Unsupported('keyword arguments in call of %s' % e.func.id)
            if e.func.id in funcs:
                actuals = [_expr(tr, mod, funcs, a, env, depth) for a in e.args]
                return _inline(tr, mod, funcs, funcs[e.func.id], actuals, depth + 1)
            target = getattr(mod, e.func.id, None)
            if target is None or not callable(target):
                raise Unsupported('call of unknown %s' % e.func.id)
            args = []
            for a in e.args:
                if isinstance(a, ast.Constant):
                    args.append(('const', a.value))
                else:
                    args.append(_expr(tr, mod, funcs, a, env, depth))
            v = _fresh(tr, 'Q')
            tr.calls.append(('external', {'name': e.func.id, 'identity': '%s.%s' % (getattr(target, '__module__', '?'), getattr(target, '__qualname__', '?')),
                                          'object': target, 'args': args, 'var': str(v)}))
            return ('str', v)
        if isinstance(e.func, ast.Attribute):
            recv = _expr(tr, mod, funcs, e.func.value, env, depth)
            meth = e.func.attr
            if e.keywords or not all(isinstance(a, ast.Constant) for a in e.args):
                raise Unsupported('method %s with non-constant arguments' % meth)
            cargs = [a.value for a in e.args]
            if meth == 'strftime' and recv[0] == 'arg' and len(cargs) == 1:
                v = _fresh(tr, 'D')
                tr.calls.append(('strftime', {'format': cargs[0], 'of': recv[1], 'var': str(v)}))
                return ('str', v)
            if meth == 'encode' and recv[0] == 'str':
                tr.encoding = cargs[0] if cargs else 'utf-8'
                return recv
            raise Unsupported('method call .%s on %s' % (meth, recv[0]))
    raise Unsupported('expression %s' % type(e).__name__)


def _s(v):
    if v[0] == 'str':
        return v[1]
    raise Unsupported('a non-text value (%s) is used as text' % (v[0],))

"""Z-date: integer encoding of strftime(F_w) followed by strptime(F_r) for formats
made of the directives %Y %m %d %H %M %S and literal characters."""
import time

import z3

WIDTH = {'Y': 4, 'm': 2, 'd': 2, 'H': 2, 'M': 2, 'S': 2}
RANGE = {'Y': (1000, 9999), 'm': (1, 12), 'd': (1, 31), 'H': (0, 23), 'M': (0, 59), 'S': (0, 59)}


class UnsupportedFormat(Exception):
    pass


def tokens(fmt):
    out = []
    i = 0
    while i < len(fmt):
        if fmt[i] == '%':
            if i + 1 >= len(fmt) or fmt[i + 1] not in WIDTH:
                raise UnsupportedFormat('directive %r in %r' % (fmt[i:i + 2], fmt))
            out.append(('dir', fmt[i + 1]))
            i += 2
        else:
            if fmt[i].isdigit():
                raise UnsupportedFormat('literal digit in %r' % fmt)
            out.append(('lit', fmt[i]))
            i += 1
    return out


def roundtrip_query(f_write, f_read, read_prefix):
    """unsat <=> for every field tuple in range: parse(read_prefix + render(d)) = d, and the rendered
    text has the shape dddd-dd-ddTdd:dd:dd"""
    tw = tokens(f_write)
    if not f_read.startswith(read_prefix):
        return {'verdict': 'sat', 'message': 'read format %r does not start with %r' % (f_read, read_prefix), 'model': {'f_read': f_read}}
    trd = tokens(f_read[len(read_prefix):])
    if [t for t in tw if t[0] == 'lit'] != [t for t in trd if t[0] == 'lit'] or len(tw) != len(trd):
        return {'verdict': 'sat', 'message': 'literal skeletons differ: %r vs %r' % (f_write, f_read), 'model': {'f_write': f_write, 'f_read': f_read}}
    shape = ''.join('d' * WIDTH[t[1]] if t[0] == 'dir' else t[1] for t in tw)
    if shape != 'dddd-dd-ddTdd:dd:dd':
        return {'verdict': 'sat', 'message': 'rendered shape is %r, the spec wants YYYY-MM-DDThh:mm:ss' % shape, 'model': {'f_write': f_write}}
    s = z3.Solver()
    fields = {}
    for k in WIDTH:
        v = z3.Int('w_' + k)
        lo, hi = RANGE[k]
        s.add(v >= lo, v <= hi)
        fields[k] = v
    # render: digit string of each written directive; parse: the directive at the same position reads those digits
    mismatch = []
    seen_w, seen_r = [], []
    for a, b in zip(tw, trd):
        if a[0] == 'lit':
            continue
        kw, kr = a[1], b[1]
        seen_w.append(kw)
        seen_r.append(kr)
        w = WIDTH[kw]
        digits = [(fields[kw] / (10 ** (w - 1 - i))) % 10 for i in range(w)]
        if WIDTH[kr] != w:
            mismatch.append(z3.BoolVal(True))
            continue
        parsed = sum(digits[i] * (10 ** (w - 1 - i)) for i in range(w))
        # the value read into field kr must be the value of field kr that was written
        mismatch.append(parsed != fields[kr])
        lo, hi = RANGE[kr]
        mismatch.append(z3.Or(parsed < lo, parsed > hi))
    if sorted(seen_w) != sorted(WIDTH) or sorted(seen_r) != sorted(WIDTH):
        return {'verdict': 'sat', 'message': 'not every field is written and read exactly once: %r / %r' % (seen_w, seen_r), 'model': {}}
    s.add(z3.Or(mismatch))
    t0 = time.time()
    r = s.check()
    out = {'verdict': str(r), 'solver_s': round(time.time() - t0, 3), 'queries': 1}
    if str(r) == 'sat':
        m = s.model()
        out['model'] = {k: m.eval(v, model_completion=True).as_long() for k, v in fields.items()}
        out['message'] = 'fields %r do not survive strftime(%r) -> strptime(%r)' % (out['model'], f_write, f_read)
    return out

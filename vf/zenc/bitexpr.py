"""Z-bits: translate a small boolean function over ``os.stat(path).st_mode``
(the sticky-bit tests of trash-cli) from its Python AST into a z3 bit-vector
term, following calls into other trash-cli functions.  Anything outside the
subset raises Unsupported (-> the check is inconclusive, never green)."""
import ast
import inspect
import stat as _stat
import textwrap
import types

import z3

WIDTH = 32


class Unsupported(Exception):
    pass


def translate(func, mode_var, depth=0):
    """z3 Bool for ``func(self?, path)`` where every os.stat/os.lstat(...).st_mode is ``mode_var``"""
    if depth > 6:
        raise Unsupported('call depth')
    func = getattr(func, '__func__', func)
    try:
        src = textwrap.dedent(inspect.getsource(func))
    except (OSError, TypeError) as e:
        raise Unsupported('no source for %r: %s' % (func, e))
    fdef = ast.parse(src).body[0]
    if not isinstance(fdef, ast.FunctionDef):
        raise Unsupported('not a function: %s' % src[:40])
    body = [s for s in fdef.body if not (isinstance(s, ast.Expr) and isinstance(s.value, ast.Constant))]
    env = {}
    for st in body[:-1]:
        if isinstance(st, ast.Assign) and len(st.targets) == 1 and isinstance(st.targets[0], ast.Name):
            env[st.targets[0].id] = _e(st.value, func, mode_var, env, depth)
        else:
            raise Unsupported('statement %s in %s' % (type(st).__name__, func.__name__))
    if not body or not isinstance(body[-1], ast.Return):
        raise Unsupported('%s does not end with return' % func.__name__)
    v = _e(body[-1].value, func, mode_var, env, depth)
    return _bool(v)


def _bool(v):
    if z3.is_bool(v):
        return v
    return v != z3.BitVecVal(0, WIDTH)


def _bv(v):
    if z3.is_bool(v):
        return z3.If(v, z3.BitVecVal(1, WIDTH), z3.BitVecVal(0, WIDTH))
    return v


def _resolve(node, func):
    """python object a Name/Attribute chain denotes in func's globals (None if it starts at self or a local)"""
    parts = []
    while isinstance(node, ast.Attribute):
        parts.append(node.attr)
        node = node.value
    if not isinstance(node, ast.Name):
        return None, None
    parts.append(node.id)
    parts.reverse()
    if parts[0] == 'self':
        return 'self', parts[1:]
    obj = func.__globals__.get(parts[0])
    if obj is None:
        return None, None
    for p in parts[1:]:
        obj = getattr(obj, p, None)
        if obj is None:
            return None, None
    return obj, parts


def _e(e, func, mode_var, env, depth):
    if isinstance(e, ast.Constant) and isinstance(e.value, bool):
        return z3.BoolVal(e.value)
    if isinstance(e, ast.Constant) and isinstance(e.value, int):
        return z3.BitVecVal(e.value, WIDTH)
    if isinstance(e, ast.Name) and e.id in env:
        return env[e.id]
    if isinstance(e, ast.Attribute):
        # <os.stat(...)|os.lstat(...)|name bound to it>.st_mode
        if e.attr == 'st_mode':
            inner = e.value
            if isinstance(inner, ast.Call):
                obj, parts = _resolve(inner.func, func)
                if parts and parts[-1] in ('stat', 'lstat'):
                    return mode_var
            if isinstance(inner, ast.Name) and inner.id in env and env[inner.id] is mode_var:
                return mode_var
            raise Unsupported('st_mode of %s' % ast.dump(inner)[:60])
        obj, parts = _resolve(e, func)
        if isinstance(obj, int) and not isinstance(obj, bool):
            return z3.BitVecVal(obj, WIDTH)
        raise Unsupported('attribute %s' % ast.dump(e)[:60])
    if isinstance(e, ast.BinOp):
        l, r = _bv(_e(e.left, func, mode_var, env, depth)), _bv(_e(e.right, func, mode_var, env, depth))
        if isinstance(e.op, ast.BitAnd):
            return l & r
        if isinstance(e.op, ast.BitOr):
            return l | r
        if isinstance(e.op, ast.BitXor):
            return l ^ r
        if isinstance(e.op, ast.RShift):
            return z3.LShR(l, r)
        if isinstance(e.op, ast.LShift):
            return l << r
        raise Unsupported('operator %s' % type(e.op).__name__)
    if isinstance(e, ast.Compare) and len(e.ops) == 1:
        l, r = _bv(_e(e.left, func, mode_var, env, depth)), _bv(_e(e.comparators[0], func, mode_var, env, depth))
        op = e.ops[0]
        if isinstance(op, ast.Eq):
            return l == r
        if isinstance(op, ast.NotEq):
            return l != r
        if isinstance(op, ast.GtE):
            return z3.UGE(l, r)
        if isinstance(op, ast.Gt):
            return z3.UGT(l, r)
        if isinstance(op, ast.LtE):
            return z3.ULE(l, r)
        if isinstance(op, ast.Lt):
            return z3.ULT(l, r)
        raise Unsupported('comparison %s' % type(op).__name__)
    if isinstance(e, ast.BoolOp):
        vals = [_bool(_e(v, func, mode_var, env, depth)) for v in e.values]
        return z3.And(vals) if isinstance(e.op, ast.And) else z3.Or(vals)
    if isinstance(e, ast.UnaryOp) and isinstance(e.op, ast.Not):
        return z3.Not(_bool(_e(e.operand, func, mode_var, env, depth)))
    if isinstance(e, ast.Call):
        obj, parts = _resolve(e.func, func)
        if parts and parts[-1] in ('stat', 'lstat') and obj is not None and not isinstance(obj, (types.FunctionType, types.MethodType)):
            return mode_var  # value of os.stat(path); only .st_mode may be taken from it (checked above)
        if obj is _stat.S_IMODE:
            return _bv(_e(e.args[0], func, mode_var, env, depth)) & z3.BitVecVal(0o7777, WIDTH)
        if obj is _stat.S_ISDIR:
            return (_bv(_e(e.args[0], func, mode_var, env, depth)) & z3.BitVecVal(0o170000, WIDTH)) == z3.BitVecVal(0o040000, WIDTH)
        if obj is bool:
            return _bool(_e(e.args[0], func, mode_var, env, depth))
        if obj == 'self':
            raise Unsupported('call through self.%s: resolve it at the call site' % '.'.join(parts))
        if isinstance(obj, (types.FunctionType, types.MethodType)):
            return translate(obj, mode_var, depth + 1)
        raise Unsupported('call %s' % ast.dump(e.func)[:80])
    raise Unsupported('expression %s' % type(e).__name__)

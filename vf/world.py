"""World specifications (plain JSON-able dicts) and their two realisations:
a PosixModel, or a real directory tree (used inside the chroot of vf.realfs).

world = {
  'mounts': ['/', '/v'],          # virtual mount table, '/' first
  'nodes':  [[kind, path, mode, data, mtime], ...]   # in creation order
  'cwd':    '/v/d',
}
kind: 'd' | 'f' | 'l'; data: str content for 'f' (latin-1 <-> bytes), target for
'l'; mtime: small int tag (seconds) or None.
"""
import os
import stat as _stat

from .posix_model import PosixModel, FRESH_CLOCK_BASE, norm_mtime

TAG_NS = 10 ** 9


def W(mounts=('/',), cwd='/', nodes=()):
    return {'mounts': list(mounts), 'cwd': cwd, 'nodes': [list(n) for n in nodes]}


def d(path, mode=0o755, mtime=None):
    return ['d', path, mode, None, mtime]


def f(path, data='', mode=0o644, mtime=None):
    if isinstance(data, bytes):
        data = data.decode('latin-1')
    return ['f', path, mode, data, mtime]


def l(path, target, mtime=None):
    return ['l', path, 0o777, target, mtime]


def build_model(world, uid=1000):
    m = PosixModel(mounts=world['mounts'], uid=uid)
    for mp in world['mounts']:
        if mp != '/':
            m.add(mp, 'd', 0o755)
    for kind, path, mode, data, mtime in world['nodes']:
        if kind == 'f':
            data = (data or '').encode('latin-1')
        m.add(path, kind, mode, data, None if mtime is None else mtime * TAG_NS)
    m.set_cwd(world.get('cwd', '/'))
    return m


def build_real(world):
    """to be called with '/' already being the (chroot-ed) virtual root and the
    virtual mounts already mounted"""
    os.umask(0o022)
    for kind, path, mode, data, mtime in world['nodes']:
        parent = os.path.dirname(path.rstrip('/'))
        if parent and not os.path.isdir(parent):
            os.makedirs(parent, 0o755)
        if kind == 'd':
            if not os.path.isdir(path):
                os.mkdir(path)
            os.chmod(path, mode)
        elif kind == 'f':
            with open(path, 'wb') as fh:
                fh.write((data or '').encode('latin-1'))
            os.chmod(path, mode)
        else:
            os.symlink(data, path)
        if mtime is not None and kind != 'd':
            os.utime(path, ns=(mtime * TAG_NS, mtime * TAG_NS), follow_symlinks=False)
    # directory mtimes last (children creation touches them)
    for kind, path, mode, data, mtime in world['nodes']:
        if kind == 'd' and mtime is not None:
            os.utime(path, ns=(mtime * TAG_NS, mtime * TAG_NS))
    os.chdir(world.get('cwd', '/'))


def snap_real(path='/'):
    """same shape as posix_model.snap_node, from the real file system"""
    try:
        st = os.lstat(path)
    except OSError:
        return None
    if _stat.S_ISDIR(st.st_mode):
        kids = []
        for name in os.listdir(path):
            kids.append((name, snap_real(os.path.join(path, name))))
        return ('d', _stat.S_IMODE(st.st_mode), tuple(sorted(kids)))
    if _stat.S_ISLNK(st.st_mode):
        return ('l', os.readlink(path), norm_mtime(st.st_mtime_ns))
    with open(path, 'rb') as fh:
        data = fh.read()
    return ('f', _stat.S_IMODE(st.st_mode), data, norm_mtime(st.st_mtime_ns))


# ------------------------------------------------------------------ snapshots
def flatten(snap, prefix=''):
    """{path: leaf description} for readable diffs"""
    out = {}
    if snap is None:
        return out
    if snap[0] == 'd':
        out[prefix or '/'] = ('d', snap[1])
        for name, c in snap[2]:
            out.update(flatten(c, prefix + '/' + name))
    else:
        out[prefix or '/'] = snap
    return out


def diff_snaps(a, b):
    fa, fb = flatten(a), flatten(b)
    out = []
    for k in sorted(set(fa) | set(fb)):
        if fa.get(k) != fb.get(k):
            out.append((k, fa.get(k), fb.get(k)))
    return out


def jsonable(x):
    if isinstance(x, bytes):
        return {'__bytes__': x.decode('latin-1')}
    if isinstance(x, tuple):
        return {'__tuple__': [jsonable(i) for i in x]}
    if isinstance(x, list):
        return [jsonable(i) for i in x]
    if isinstance(x, dict):
        return {str(k): jsonable(v) for k, v in x.items()}
    return x


def unjsonable(x):
    if isinstance(x, dict):
        if '__bytes__' in x:
            return x['__bytes__'].encode('latin-1')
        if '__tuple__' in x:
            return tuple(unjsonable(i) for i in x['__tuple__'])
        return {k: unjsonable(v) for k, v in x.items()}
    if isinstance(x, list):
        return [unjsonable(i) for i in x]
    return x

"""Work-around for CrossHair 0.0.110: SymbolicBoundedIntTuple._create_up_to is
called with a size smaller than what was already created after
``sym_str == "longer literal"`` followed by slicing / posixpath.dirname and
raises CrossHairInternal("_created_vars exceeded actual length").  Returning
early when there is nothing to add is semantically a no-op.

The patch is applied only if the method still has the expected shape; a
changed CrossHair makes ``apply()`` return False and checks exit inconclusive.
"""
import hashlib
import inspect

APPLIED = False
STATUS = 'not applied'


def apply():
    global APPLIED, STATUS
    if APPLIED:
        return True
    import crosshair
    from crosshair.libimpl import builtinslib as _b
    cls = getattr(_b, 'SymbolicBoundedIntTuple', None)
    orig = getattr(cls, '_create_up_to', None) if cls else None
    if orig is None:
        STATUS = 'SymbolicBoundedIntTuple._create_up_to not found (crosshair %s)' % crosshair.__version__
        return False
    try:
        src = inspect.getsource(orig)
    except Exception:
        src = ''
    if '_created_vars' not in src:
        STATUS = 'unexpected body of _create_up_to (crosshair %s)' % crosshair.__version__
        return False

    def _create_up_to(self, size):
        if size - len(self._created_vars) <= 0:
            return
        return orig(self, size)

    cls._create_up_to = _create_up_to
    APPLIED = True
    STATUS = 'applied to crosshair %s (_create_up_to sha1 %s)' % (
        crosshair.__version__, hashlib.sha1(src.encode()).hexdigest()[:10])
    return True

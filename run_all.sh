#!/bin/sh
# developer aid: run every check of a tier, one after the other, with timings
tier=${1:-quick}
shift
props=${@:-C01 C02 C03 C04 C05 C06 C07 C08 C09 C10 C11 C12 C13 C14 C15 C16 C17 C18 C19 C20}
for p in $props; do
  s=$(date +%s)
  ./check $p --tier $tier > out_${tier}_$p.log 2>&1
  echo "$p exit=$? $(( $(date +%s) - s ))s"
  grep -v " confirmed " out_${tier}_$p.log | cut -c1-500 | head -14
done

"""C03 -- every .trashinfo is spec-conformant and decodes back to the exact path and time."""
import ast
import datetime
import io
import urllib.parse

from vf import rt, scen, world as W
from vf.commands import C
from vf.runner import CH, ZQ
from harness import common as K

PARTITION = None
MOD = 'harness.c03'
META = {
    'level': 'other',
    'explanation': 'Five solver obligations whose conjunction is the property, with explicit contracts between them. '
                   'Z_template: the Python AST of trashcli/put/format_trash_info.py translated to a z3 string term over free '
                   'variables Q (quoter output) and D (strftime output); unsat of "content != [Trash Info]\\nPath=Q\\n'
                   'DeletionDate=D\\n" for ALL Q, D; records the identity of the quoter, its safe set and the date format. '
                   'Z_codec: bit-vector encoding of the observed quoter followed by the observed un-quoter for ALL strings of '
                   '<= N code points: round trip, output alphabet (RFC 2396 unreserved, "/", %HH; never a newline), and the '
                   'observed un-quoter equals the spec decoder on ALL ASCII texts of <= M symbols. Z_date: integer encoding '
                   'of strftime(F_w) then strptime(F_r) for the observed formats over all field values. K_read: the real '
                   'parse_path / ParseTrashInfo over all contents within a shape bound with the un-quoter replaced by a '
                   'recorder: it receives exactly the text after the first "Path=". K_location: the real '
                   'OriginalLocation.for_file over all parent/volume strings within the bound. W_bytes: the real trash-put / '
                   'trash-list on the PosixModel for every single-byte name 1..255 and a table of multi-byte / special names, '
                   'the written bytes checked by an independent spec decoder.',
    'assumptions': ['the z3 models of urllib.parse.quote/unquote(_plus) are validated against the real functions on a '
                    'concrete corpus at check time (stub validation, not the verdict)',
                    'names longer than N code points: per-character independence of the stdlib codec is assumed',
                    'strftime/strptime digit semantics for years 1000..9999', 'PosixModel fidelity for W_bytes'],
}


# ------------------------------------------------------------------ observation
def observed_write_side():
    from vf.zenc import template
    tr = template.translate('trashcli.put.format_trash_info', 'format_trashinfo', ['original_location', 'deletion_date'])
    ext = [c for c in tr.calls if c[0] == 'external']
    sf = [c for c in tr.calls if c[0] == 'strftime']
    return tr, ext, sf


def quoter_identity(ext):
    """(plus?, safe) of the quoter call found in the write side, or raises"""
    if len(ext) != 1:
        raise ValueError('expected exactly one library call on the write side, found %r' % ([e[1]['name'] for e in ext],))
    d = ext[0][1]
    obj = d['object']
    if obj is urllib.parse.quote:
        plus = False
    elif obj is urllib.parse.quote_plus:
        plus = True
    else:
        raise ValueError('unknown quoter %s' % d['identity'])
    args = d['args']
    if not args or args[0] != ('arg', 'original_location'):
        raise ValueError('the quoter is not applied to the original location: %r' % (args,))
    safe = '/'
    if len(args) > 1:
        if args[1][0] != 'const' or not isinstance(args[1][1], str):
            raise ValueError('non-constant safe set')
        safe = args[1][1]
    if len(args) > 2:
        raise ValueError('encoding/errors arguments are not modelled')
    return plus, safe


def unquoter_identity():
    import trashcli.parse_trashinfo.parse_path as pp
    import trashcli.parse_trashinfo.parse_trashinfo as pt
    out = []
    for mod in (pp, pt):
        f = getattr(mod, 'unquote', None)
        if f is urllib.parse.unquote:
            out.append(False)
        elif f is urllib.parse.unquote_plus:
            out.append(True)
        else:
            raise ValueError('unknown un-quoter in %s: %r' % (mod.__name__, f))
    if out[0] != out[1]:
        raise ValueError('parse_path and ParseTrashInfo use different un-quoters')
    return out[0]


def read_format():
    """the constant format handed to strptime in parse_trashinfo.py and the TRASH_DATE one in empty/clock.py"""
    import trashcli.parse_trashinfo.parse_trashinfo as pt
    import trashcli.empty.clock as ck
    fmts = []
    for mod in (pt, ck):
        with io.open(mod.__file__, 'r', encoding='utf-8') as f:
            tree = ast.parse(f.read())
        found = []
        for n in ast.walk(tree):
            if isinstance(n, ast.Call) and isinstance(n.func, ast.Attribute) and n.func.attr == 'strptime' and len(n.args) == 2 \
                    and isinstance(n.args[1], ast.Constant):
                found.append(n.args[1].value)
        if len(found) != 1:
            raise ValueError('expected one strptime(<x>, <const>) in %s, found %r' % (mod.__name__, found))
        fmts.append(found[0])
    return fmts


# ------------------------------------------------------------------ Z obligations
def z_template():
    import z3
    from vf.zenc import template
    try:
        tr, ext, sf = observed_write_side()
        plus, safe = quoter_identity(ext)
    except (template.Unsupported, ValueError) as e:
        return {'verdict': 'unknown', 'message': 'write side outside the translatable subset: %s' % e}
    if len(sf) != 1 or sf[0][1]['of'] != 'deletion_date':
        return {'verdict': 'unknown', 'message': 'expected one strftime on the deletion date: %r' % (sf,)}
    if tr.encoding not in ('utf-8', 'utf8', 'UTF-8'):
        return {'verdict': 'sat', 'message': 'content encoded as %r' % (tr.encoding,), 'model': {'encoding': tr.encoding}}
    Q = tr.free[ext[0][1]['var']]
    D = tr.free[sf[0][1]['var']]
    want = z3.Concat(z3.StringVal('[Trash Info]\nPath='), Q, z3.StringVal('\nDeletionDate='), D, z3.StringVal('\n'))
    s = z3.Solver()
    s.set('timeout', 60000)
    s.add(tr.term[1] != want)
    import time
    t0 = time.time()
    r = s.check()
    out = {'verdict': str(r), 'solver_s': round(time.time() - t0, 3), 'queries': 1,
           'extra': {'quoter': ext[0][1]['identity'], 'safe': safe, 'write_format': sf[0][1]['format'], 'encoding': tr.encoding},
           'samples': ['term: ' + str(tr.term[1]).replace('\n', '\\n')]}
    if str(r) == 'sat':
        m = s.model()
        out['model'] = {'Q': m.eval(Q, model_completion=True).as_string(), 'D': m.eval(D, model_completion=True).as_string()}
        out['message'] = 'for quoter output %r and date text %r the content is not the spec layout' % (out['model']['Q'], out['model']['D'])
    return out


def z_template_replay(model):
    from trashcli.put.format_trash_info import format_trashinfo
    d = datetime.datetime(2020, 1, 2, 3, 4, 5)
    for loc in ('/a/b', 'x y', '%', 'n\nl'):
        got = format_trashinfo(loc, d)
        want = ('[Trash Info]\nPath=%s\nDeletionDate=2020-01-02T03:04:05\n' % urllib.parse.quote(loc, '/')).encode('utf-8')
        if got != want:
            return 'C03:info-layout :: format_trashinfo(%r) = %r, the spec layout is %r' % (loc, got, want)
    return ''


def _ids():
    tr, ext, sf = observed_write_side()
    qplus, safe = quoter_identity(ext)
    uplus = unquoter_identity()
    return qplus, safe, uplus


def z_codec(which, n):
    from vf.zenc import codec, template
    try:
        qplus, safe, uplus = _ids()
    except (template.Unsupported, ValueError) as e:
        return {'verdict': 'unknown', 'message': str(e)}
    nval, bad = codec.validate(3, safe, qplus, uplus)
    if bad:
        return {'verdict': 'unknown', 'message': 'z3 model of the stdlib codec disagrees with urllib.parse on %r' % (bad[:3],)}
    if which == 'roundtrip':
        out = codec.roundtrip(n, safe, qplus, uplus)
    elif which == 'alphabet':
        out = codec.alphabet(n, safe, qplus)
    else:
        out = codec.decoder_vs_spec(n, uplus)
    out['extra'] = {'quote_plus': qplus, 'safe': safe, 'unquote_plus': uplus, 'N': n, 'model_validated_on': nval}
    out['samples'] = ['%s over all strings of <= %d symbols (safe=%r)' % (which, n, safe)]
    if out['verdict'] == 'sat':
        out['message'] = '%s fails for %r' % (which, out['model'])
    return out


def z_codec_replay(model):
    """replay on the real code path: format_original_location then parse_path"""
    from trashcli.put.format_trash_info import format_original_location
    from trashcli.parse_trashinfo.parse_path import parse_path
    if 's' in model:
        s = model['s']
        q = format_original_location(s)
        back = parse_path('[Trash Info]\nPath=%s\nDeletionDate=2020-01-01T00:00:00\n' % q)
        if back != s:
            return 'C03:path-round-trip :: location %r is written as Path=%r and read back as %r' % (s, q, back)
        allowed = set('ABCDEFGHIJKLMNOPQRSTUVWXYZabcdefghijklmnopqrstuvwxyz0123456789_.-~/%')
        if not set(q) <= allowed:
            return 'C03:path-alphabet :: location %r is written as %r (characters outside RFC 2396 escaping: %r)' % (s, q, sorted(set(q) - allowed))
        return ''
    q = model['q']
    back = parse_path('[Trash Info]\nPath=%s\n' % q)
    spec = scen.spec_unescape(q)
    if back.encode('utf-8', 'replace') != spec.encode('utf-8', 'surrogateescape').decode('utf-8', 'replace').encode('utf-8', 'replace'):
        return 'C03:decoder-differs-from-spec :: Path=%r is read as %r, the spec decodes it to %r' % (q, back, spec)
    return ''


def z_date():
    from vf.zenc import dates, template
    try:
        tr, ext, sf = observed_write_side()
        fr, ftd = read_format()
    except (template.Unsupported, ValueError) as e:
        return {'verdict': 'unknown', 'message': str(e)}
    fw = sf[0][1]['format']
    try:
        out = dates.roundtrip_query(fw, fr, 'DeletionDate=')
        out2 = dates.roundtrip_query(fw, ftd, '')
    except dates.UnsupportedFormat as e:
        return {'verdict': 'unknown', 'message': str(e)}
    out['extra'] = {'write_format': fw, 'read_format': fr, 'TRASH_DATE_format': ftd}
    out['samples'] = ['strptime(%r, "DeletionDate=" + strftime(%r, d)) == d for all fields in range' % (fr, fw)]
    out['queries'] = 2
    if out['verdict'] == 'unsat' and out2['verdict'] != 'unsat':
        out2['extra'] = out['extra']
        return out2
    return out


def z_date_replay(model):
    from trashcli.put.format_trash_info import format_date
    from trashcli.parse_trashinfo.parse_deletion_date import parse_deletion_date
    cands = [datetime.datetime(2020, 1, 2, 3, 4, 5), datetime.datetime(1999, 12, 31, 23, 59, 58), datetime.datetime(2024, 2, 29, 0, 59, 0)]
    if all(k in model for k in 'YmdHMS'):
        try:
            cands.insert(0, datetime.datetime(model['Y'], model['m'], min(model['d'], 28), model['H'], model['M'], model['S']))
        except ValueError:
            pass
    for d in cands:
        text = format_date(d)
        back = parse_deletion_date('[Trash Info]\nPath=a\nDeletionDate=%s\n' % text)
        shape_ok = len(text) == 19 and text[4] == '-' and text[7] == '-' and text[10] == 'T' and text[13] == ':' and text[16] == ':' \
            and all(text[i].isdigit() for i in (0, 1, 2, 3, 5, 6, 8, 9, 11, 12, 14, 15, 17, 18))
        if back != d or not shape_ok:
            return 'C03:date-round-trip :: %r is written as %r and read back as %r' % (d, text, back)
    return ''


def z_clock():
    """RealClock.now must be datetime.datetime.now() (local, naive): decided on the AST"""
    import trashcli.put.clock as pc
    with io.open(pc.__file__, 'r', encoding='utf-8') as f:
        tree = ast.parse(f.read())
    for n in ast.walk(tree):
        if isinstance(n, ast.ClassDef) and n.name == 'RealClock':
            for fn in n.body:
                if isinstance(fn, ast.FunctionDef) and fn.name == 'now':
                    rets = [x for x in ast.walk(fn) if isinstance(x, ast.Return)]
                    if len(rets) == 1 and ast.unparse(rets[0].value) == 'datetime.datetime.now()':
                        return {'verdict': 'unsat', 'queries': 1, 'solver_s': 0.0, 'samples': ['RealClock.now returns datetime.datetime.now()']}
                    return {'verdict': 'sat', 'model': {'expr': ast.unparse(rets[0].value) if rets else None},
                            'message': 'RealClock.now returns %s' % (ast.unparse(rets[0].value) if rets else None)}
    return {'verdict': 'unknown', 'message': 'RealClock.now not found'}


def z_clock_replay(model):
    from vf import commands
    commands.install_env_stubs()
    commands.ENV.now = datetime.datetime(2020, 1, 2, 3, 4, 5)
    from trashcli.put.clock import RealClock
    got = RealClock().now()
    if got != datetime.datetime(2020, 1, 2, 3, 4, 5) or got.tzinfo is not None:
        return 'C03:clock-not-local-now :: RealClock.now() = %r while the local time is 2020-01-02 03:04:05' % (got,)
    return ''


# ------------------------------------------------------------------ K obligations
UNQ = []


def _rec_unquote(s, *a, **k):
    UNQ.append(s)
    return '<' + s + '>'


PREFIXES = ['[Trash Info]\n', '', '[Trash Info]\nDeletionDate=2020-01-01T00:00:00\n', 'X=1\n Path=no\n', '[Trash Info]\n\n', 'path=no\nPath =no\n']
SUFFIXES = ['\nDeletionDate=2020-01-01T00:00:00\n', '\n', '', '\nPath=later\n', '\nPath=\nPath=x']


def k_read(pre: int, q: str, post: int) -> str:
    """
    pre: PARTITION is None or pre == PARTITION
    pre: 0 <= pre < 6 and 0 <= post < 5
    pre: len(q) <= 4
    pre: chr(10) not in q
    post: _ == ''
    """
    rt.begin()
    import trashcli.parse_trashinfo.parse_path as pp
    # (CrossHair 0.0.110 mis-evaluates  symbolic + ''  : never concatenate a concrete empty string)
    content = PREFIXES[rt.sel(pre, 6)] + 'Path=' + q
    suffix = SUFFIXES[rt.sel(post, 5)]
    if suffix != '':
        content = content + suffix
    saved = pp.unquote
    pp.unquote = _rec_unquote
    del UNQ[:]
    try:
        got = pp.parse_path(content)
    finally:
        pp.unquote = saved
    why = ''
    if len(UNQ) == 0 and got is not None:
        # a value came back although the un-quoter this harness records was never called: the decoding happens
        # somewhere else now; this kernel cannot judge it (the W obligations decide the end-to-end behaviour)
        return rt.not_applicable('unquote-seam-not-used', 'parse_path(%r) returned %r without calling parse_path.unquote' % (content, got))
    if len(UNQ) != 1:
        why = 'calls'
    elif not (UNQ[0] == q):
        why = 'argval'
    elif not (got == '<' + q + '>'):
        why = 'retval'
    if why:
        return rt.fail('C03:read-side-value:' + why, 'content %r: the un-quoter received %r, the text after the first Path= is %r' % (content, UNQ, q))
    return rt.ok()


class _Fs(object):
    def __init__(self, rp):
        self.rp = rp

    def parent_realpath2(self, path):
        return self.rp


LOCNAMES = ['n', 'a b', '.h', 'x.trashinfo']


def k_location(volume: str, rest: str, namesel: int, relative: bool) -> str:
    """
    pre: 1 <= len(volume) <= 3 and len(rest) <= 3 and 0 <= namesel < 4
    pre: volume[0] == '/' and (len(volume) == 1 or volume[-1] != '/')
    pre: not rest.startswith('/') and not rest.endswith('/')
    post: _ == ''
    """
    name = LOCNAMES[rt.sel(namesel, 4)]
    # parent (realpath of the directory holding the entry) = volume, or volume + '/' + rest
    rt.begin()
    import posixpath
    from trashcli.put.original_location import OriginalLocation
    from trashcli.put.core.path_maker_type import PathMakerType
    if rest == '':
        parent = volume
    elif volume == '/':
        parent = '/' + rest
    else:
        parent = volume + '/' + rest
    pm = PathMakerType.RelativePaths if relative else PathMakerType.AbsolutePaths
    got = OriginalLocation(_Fs(parent)).for_file('whatever/' + name, pm, volume)
    loc = posixpath.join(parent, name)
    if not relative:
        if got != loc:
            return rt.fail('C03:absolute-location', 'for_file -> %r, the location is %r' % (got, loc))
        return rt.ok()
    want = name if rest == '' else rest + '/' + name
    if got != want:
        key = 'C03:relative-location-is-absolute' if got[:1] == '/' else 'C03:relative-location-wrong'
        return rt.fail('%s:%s' % (key, 'root-volume' if volume == '/' else 'other'),
                       'entry %r on volume %r: Path would be %r, relative to the volume top directory it is %r' % (loc, volume, got, want))
    return rt.ok()


def k_location_outside(volume: str, tail: str, relative: bool) -> str:
    """
    pre: 2 <= len(volume) <= 3 and 1 <= len(tail) <= 3
    pre: volume[0] == '/' and volume[-1] != '/'
    pre: tail[0] != '/' and tail[-1] != '/'
    post: _ == ''
    """
    # a parent directory that merely shares a string prefix with the volume (/v vs /vx/d) is NOT inside it:
    # nothing may be cut off, the location stays absolute
    rt.begin()
    from trashcli.put.original_location import OriginalLocation
    from trashcli.put.core.path_maker_type import PathMakerType
    parent = volume + tail
    pm = PathMakerType.RelativePaths if relative else PathMakerType.AbsolutePaths
    got = OriginalLocation._calc_parent_path(parent, volume, pm)
    if not (got == parent):
        return rt.fail('C03:sibling-volume-prefix-cut', 'parent %r is outside volume %r (only a common string prefix) but was rewritten to %r' % (parent, volume, got))
    return rt.ok()


# ------------------------------------------------------------------ W: all byte values
SPECIAL = ['a b', 'p%41q', 'new\nline', 'cr\rlf', 'tab\there', 'ünï', '中文', '\U0001f600', 'a=b', '[x]', 'a+b', 'a#b?c',
           'Path=x', '%', '%%', '%2', '%zz', ' lead', 'trail ', '-dash', '~tilde', "quo'te", 'dq"x', 'back\\slash', '\x7f', 'n' * 255,
           'é' * 127, 'bad\udcff', '\udc80', 'a\udcfeb']
LAYOUTS = ['home', 'alt', 'top']
NOW = '2021-12-31T23:59:58'


def name_for(i):
    if i < 255:
        b = i + 1
        if b == 0x2f:
            return 'slash-excluded'
        return bytes([b]).decode('utf-8', 'surrogateescape') if b >= 0x80 else chr(b)
    return SPECIAL[i - 255]


DEEP = ''.join('/' + chr(0x6df1 + k) * 80 for k in range(6))


def _bytes_case(i, layout, depth):
    with rt.untraced():
        name = name_for(i)
        if name in ('.', '..'):
            rt.begin()
            return rt.ok()
        lay = LAYOUTS[layout]
        base = '/h/w' if lay == 'home' else '/v/w'
        # depth 2: six nested directories of 80 CJK characters each: ~1.5 KB of path, ~4.4 KB once %-escaped
        d = base + ('' if depth == 0 else '/s p/é' if depth == 1 else DEEP)
        path = d + '/' + name
        rt.begin((repr(name[:12]), lay, depth))
        nodes = [W.d('/h'), W.d(d), ['f', path, 0o644, 'PAYLOAD', 1000]]
        if lay == 'top':
            nodes.append(W.d('/v/.Trash', 0o1777))
        m = W.build_model(W.W(mounts=K.MOUNTS, cwd=d, nodes=nodes))
        e = scen.env()
        before = m.snap('/')
        _, r = scen.run_model(None, [C('put', ['--', path], e, now=NOW, cwd=d)], model=m)
        r = r[0]
        after = m.snap('/')
        invalid_utf8 = any(0xDC80 <= ord(ch) <= 0xDCFF for ch in name)
        label = 'name=%r' % (name[:12],)
        if invalid_utf8 and (r['exit'] != 0):
            # nothing may be written for an entry that is not trashed (C16 owns the failure itself)
            removed, added, changed = scen.delta(before, after)
            if removed or changed or any(v[0] != 'd' for v in added.values()):
                return rt.fail('C03:failed-put-wrote-something:' + label, repr(sorted(added)))
            return rt.ok()
        if r['exc'] or r['exit'] != 0:
            return rt.fail('C03:put-failed:%s' % label, repr(r)[:300])
        td = {'home': '/h/.local/share/Trash', 'alt': '/v/.Trash-1000', 'top': '/v/.Trash/1000'}[lay]
        infos = scen.children(after, td + '/info')
        if len(infos) != 1:
            return rt.fail('C03:not-one-info:' + label, repr(sorted(infos)))
        data = list(infos.values())[0][2]
        lines = data.split(b'\n')
        if lines[0] != b'[Trash Info]' or not data.endswith(b'\n') or len(lines) != 4:
            return rt.fail('C03:layout:' + label, repr(data))
        if not lines[1].startswith(b'Path=') or not lines[2].startswith(b'DeletionDate='):
            return rt.fail('C03:layout:' + label, repr(data))
        qv = lines[1][5:]
        allowed = b'ABCDEFGHIJKLMNOPQRSTUVWXYZabcdefghijklmnopqrstuvwxyz0123456789_.-~/%'
        if any(c not in allowed for c in qv):
            return rt.fail('C03:path-alphabet:' + label, 'Path=%r' % (qv,))
        ok, pth, date = scen.spec_parse_info(data)
        want = path if lay == 'home' else path[len('/v/'):]
        if not ok or pth != want:
            return rt.fail('C03:path-does-not-decode:' + label, 'Path=%r decodes (spec rule) to %r, the location is %r' % (qv, pth, want))
        if lay != 'home' and (pth.startswith('/') or '/../' in '/' + pth + '/'):
            return rt.fail('C03:topdir-path-not-relative:' + label, repr(pth))
        if date != NOW:
            return rt.fail('C03:date-written:' + label, '%r vs now %r' % (date, NOW))
        # trash-list reads it back exactly
        _, rl = scen.run_model(None, [C('list', [], e, cwd='/')], model=m)
        if rl[0]['out'] != '%s %s\n' % (NOW.replace('T', ' '), path):
            return rt.fail('C03:list-reads-differently:' + label, 'trash-list prints %r for %r' % (rl[0]['out'], path))
        return rt.ok()


FALL = ['home-to-alt', 'alt-to-home-fallback', 'top-to-alt']
FERR = [13, 30, 28, 5]  # EACCES EROFS ENOSPC EIO


def _fall_case(direction, e, kind):
    """the first usable candidate fails AFTER the info content was generated; the entry lands in a trash
    directory of the other kind: the Path written there must follow that directory's rule"""
    with rt.untraced():
        import errno as _e
        d = FALL[direction]
        rt.begin(('fallthrough', d, _e.errorcode[FERR[e]], K.KINDS[kind]))
        nodes = [W.d('/h'), W.d('/h/w'), W.d('/v/d'), W.f('/v/keep', 'KEEP', 0o644, 800)] + K.sentinels('/v/out')
        env = scen.env()
        args = []
        if d == 'home-to-alt':
            src, bad, opn = '/h/w/x y', '/h/.local/share/Trash/info', 'open'
            want_td, want_path = '/.Trash-1000', 'h/w/x%20y'
        elif d == 'alt-to-home-fallback':
            src, bad, opn = '/v/d/x y', '/v/.Trash-1000/info', 'open'
            want_td, want_path = '/h/.local/share/Trash', '/v/d/x%20y'
            args = ['--home-fallback']
            env['TRASH_ENABLE_HOME_FALLBACK'] = '1'
        else:
            nodes.append(W.d('/v/.Trash', 0o1777))
            src, bad, opn = '/v/d/x y', '/v/.Trash/1000/info', 'open'
            want_td, want_path = '/v/.Trash-1000', 'd/x%20y'
        nodes += K.entry_nodes(kind, src, 1000, out='/v/out')
        m = W.build_model(W.W(mounts=K.MOUNTS, cwd='/', nodes=nodes))
        m.max_ops = 9000
        hook = scen.PathFaultHook(opn, bad, FERR[e])
        _, r = scen.run_model(None, [C('put', args + ['--', src], env, now=NOW, cwd='/')], hook=hook, model=m)
        r = r[0]
        label = '%s:%s' % (d, _e.errorcode[FERR[e]])
        if r.get('nonterminating') or r['exc']:
            return rt.fail('C03:fallthrough-crashed:' + label, repr(r)[:300])
        if not hook.injected:
            return rt.fail('C03:harness-fault-not-injected:' + label, '')
        after = m.snap('/')
        infos = scen.children(after, want_td + '/info')
        if r['exit'] != 0 or len(infos) != 1:
            return rt.fail('C03:fallthrough-did-not-reach-next-candidate:' + label, 'exit %r, infos in %s: %r; stderr %r' % (r['exit'], want_td, sorted(infos), r['err'][-300:]))
        data = list(infos.values())[0][2]
        line = data.split(b'\n')[1]
        if line != ('Path=' + want_path).encode():
            return rt.fail('C03:path-rule-of-other-candidate:' + label, 'entry %r trashed in %s after %s failed: %r, expected %r' % (
                src, want_td, bad, line, 'Path=' + want_path))
        return rt.ok()


def w_fall(direction: int, e: int, kind: int) -> str:
    """
    pre: 0 <= direction < 3 and 0 <= e < 4 and 0 <= kind < 6
    post: _ == ''
    """
    return _fall_case(rt.sel(direction, 3), rt.sel(e, 4), rt.sel(kind, 6))


def _form_case(where, top, alt, hk, fb, first=0):
    """over C07's grid of entry locations x trash-dir states: whichever trash directory ends up holding the entry, the
    Path written there follows THAT directory's rule (absolute in a home trash, relative to $topdir without '..' in
    $topdir/.Trash/$uid and $topdir/.Trash-$uid) and designates the entry"""
    from harness import c07
    import posixpath
    with rt.untraced():
        rt.begin(('form', c07.WHERE[where], K.TOP_STATES[top], c07.ALT[alt], c07.HOMEK[hk], c07.FALLBACK[fb]))
        world, step, env, fdir, fvol, tdpath, fallback = c07.scenario(where, top, alt, hk, 0, 0, fb, first)
        m = W.build_model(world)
        before = m.snap('/')
        _, r = scen.run_model(None, [step], model=m)
        after = m.snap('/')
        label = 'file=%s:home=%s' % (c07.WHERE[where], c07.HOMEK[hk])
        removed, added, changed = scen.delta(before, after)
        for p, v in added.items():
            if v[0] != 'f' or '/info/' not in p or not p.endswith('.trashinfo'):
                continue
            if first and posixpath.basename(p) != 'x.trashinfo':
                continue  # (the record of the other argument of the run)
            td = p[:p.rindex('/info/')]
            ok, pth, date = scen.spec_parse_info(v[2])
            if not ok:
                return rt.fail('C03:layout:' + label, repr(v[2]))
            base = posixpath.basename(td)
            in_topdir = base.startswith('.Trash-') or posixpath.basename(posixpath.dirname(td)) == '.Trash'
            if in_topdir:
                topdir = posixpath.dirname(td) if base.startswith('.Trash-') else posixpath.dirname(posixpath.dirname(td))
                if pth.startswith('/') or '/../' in '/' + pth + '/':
                    return rt.fail('C03:topdir-path-not-relative:' + label, 'Path=%r written in %s' % (pth, td))
                if posixpath.join(topdir, pth) != fdir.rstrip('/') + '/x':
                    return rt.fail('C03:path-does-not-decode:' + label, 'Path=%r in %s designates %r, the entry was %r' % (pth, td, posixpath.join(topdir, pth), fdir + '/x'))
            elif td.endswith('/Trash') and not pth.startswith('/'):  # (a directory reached through a symlinked name is not classified)
                return rt.fail('C03:home-path-not-absolute:' + label, 'Path=%r written in %s' % (pth, td))
        return rt.ok()


def w_form(where: int, top: int, alt: int, hk: int, fb: int) -> str:
    """
    pre: PARTITION is None or where == PARTITION
    pre: 0 <= where < 8 and 0 <= top < 3 and 0 <= alt < 5 and 0 <= hk < 7 and 0 <= fb < 3
    post: _ == ''
    """
    # (fb == 2: fallback off, and the run first trashes an entry reached THROUGH the link that is named next)
    return _form_case(rt.sel(where, 8), rt.of([0, 1, 2], top), rt.sel(alt, 5), rt.sel(hk, 7), rt.of([0, 3, 0], fb), rt.of([0, 0, 4], fb))


TD_KINDS = ['dir-on-the-entry-volume', 'dir-on-another-volume', 'link-on-root-to-dir-on-v', 'link-on-v-to-dir-on-root', 'link-on-the-same-volume', 'relative-spelling']
TD_ENTRY = ['/v/d/x', '/r/x', '/v/x']
TD_NAMES = ['x', 'a b', '%41', 'caf\u00e9']


def _tdopt_case(kind, entry, nm, relink=False):
    """trash-put --trash-dir T, then trash-list --trash-dir T and trash-restore --trash-dir T: whatever T is (a directory,
    a symbolic link crossing volumes either way), the readers decode the written Path back to the entry's location"""
    with rt.untraced():
        k = TD_KINDS[kind]
        rt.begin(('tdopt', k, TD_ENTRY[entry], TD_NAMES[nm], relink))
        src = TD_ENTRY[entry][:-1] + TD_NAMES[nm]
        nodes = [W.d('/h'), W.d('/v/d'), W.d('/r'), W.f(src, 'DATA', 0o644, 1000)]
        evol = '/v' if src.startswith('/v/') else '/'
        if k == 'dir-on-the-entry-volume':
            T = (evol.rstrip('/') + '/td')
            nodes.append(W.d(T, 0o700))
        elif k == 'dir-on-another-volume':
            T = '/td' if evol == '/v' else '/v/td'
            nodes.append(W.d(T, 0o700))
        elif k == 'link-on-root-to-dir-on-v':
            T = '/r/lt'
            nodes += [W.d('/v/realtd', 0o700), W.l(T, '/v/realtd', 900)]
        elif k == 'link-on-v-to-dir-on-root':
            T = '/v/lt'
            nodes += [W.d('/r/realtd', 0o700), W.l(T, '/r/realtd', 900)]
        elif k == 'link-on-the-same-volume':
            T = evol.rstrip('/') + '/lt'
            nodes += [W.d(evol.rstrip('/') + '/realtd', 0o700), W.l(T, 'realtd', 900)]
        else:
            T = '../' + evol.strip('/') + ('/' if evol != '/' else '') + 'td' if evol != '/' else '../td'
            nodes.append(W.d(evol.rstrip('/') + '/td', 0o700))
        world = W.W(mounts=K.MOUNTS, cwd='/h', nodes=nodes)
        e = scen.env()
        label = '%s:entry=%s' % (k, TD_ENTRY[entry])
        m = W.build_model(world)
        _, res1 = scen.run_model(None, [C('put', ['--trash-dir', T, '--home-fallback', '--', src], dict(e, TRASH_ENABLE_HOME_FALLBACK='1'), cwd='/h', now='2021-03-04T05:06:07'), {'snap': '/'}], model=m)
        if relink and m.lookup(src, False) is None:
            # the layout changes AFTER the trashing: a symbolic link to a directory elsewhere now sits at the original
            # location - the readers still decode the Path to the location, not to where that link leads
            m.add('/v/elsewhere-now', 'd', 0o755)
            m.add(src, 'l', 0o777, '/v/elsewhere-now')
        _, res2 = scen.run_model(None, [C('list', ['--trash-dir', T], e, cwd='/h'), C('restore', ['--trash-dir', T, '/'], e, stdin=[''], cwd='/h')], model=m)
        rp, after, rl, rr = res1[0], res1[1], res2[0], res2[1]
        for r_ in (rp, rl, rr):
            if r_['exc']:
                return rt.fail('C03:traceback:%s:%s' % (r_['exc'].split(':')[0], label), r_['exc'])
        if scen.sub(after, src) is not None:
            if rp['exit'] == 0:
                return rt.fail('C03:tdopt-put-claims-success:' + label, rp['err'][-200:])
            return rt.ok()  # refused (e.g. another volume): nothing was written, nothing to decode
        want = '2021-03-04 05:06:07 ' + src
        got = rl['out'][:-1] if rl['out'].endswith(chr(10)) else rl['out']
        if got != want:
            return rt.fail('C03:list-does-not-decode-to-the-location:' + label, 'trash-list --trash-dir %s prints %r, the entry was %r' % (T, got, src))
        lst = K.restore_listing(rr['out'])
        if len(lst) != 1 or lst[0][2] != src or lst[0][1] != '2021-03-04 05:06:07':
            return rt.fail('C03:restore-does-not-decode-to-the-location:' + label, 'trash-restore --trash-dir %s offers %r, the entry was %r' % (T, lst, src))
        return rt.ok()


def _manyvols(order, nm, reader):
    """entries trashed by trash-put on THREE volumes (home, /v, /w) in one trash each; a reader that walks all of them
    decodes every Path against the top directory of the volume the entry's own trash directory belongs to"""
    with rt.untraced():
        names = TD_NAMES[nm]
        rt.begin(('many-volumes', order, names, reader))
        locs = ['/h/w/' + names, '/v/d/' + names, '/w/d/' + names]
        nodes = [W.d('/h'), W.d('/h/w'), W.d('/v/d'), W.d('/w/d')] + [W.f(p_, 'DATA' + p_[:2], 0o644, 1000 + i) for i, p_ in enumerate(locs)]
        world = W.W(mounts=['/', '/v', '/w'], cwd='/', nodes=nodes)
        e = scen.env()
        seq = [locs, locs[::-1], [locs[1], locs[2], locs[0]]][order]
        steps = [C('put', ['--', p_], e, cwd='/', now='2021-03-04T05:06:0%d' % i) for i, p_ in enumerate(seq)]
        steps.append(C('list', [], e, cwd='/') if reader == 0 else C('restore', ['/'], e, stdin=[''], cwd='/'))
        m, res = scen.run_model(world, steps)
        for r_ in res:
            if r_['exc']:
                return rt.fail('C03:traceback:%s:many-volumes' % r_['exc'].split(':')[0], r_['exc'])
        if any(r_['exit'] != 0 for r_ in res[:3]):
            return rt.fail('C03:put-failed:many-volumes', repr([r_['err'] for r_ in res[:3]])[:300])
        want = sorted('2021-03-04 05:06:0%d %s' % (i, p_) for i, p_ in enumerate(seq))
        if reader == 0:
            got = sorted(K.lines(res[3]['out']))
        else:
            got = sorted('%s %s' % (d, p_) for (_, d, p_) in K.restore_listing(res[3]['out']))
        if got != want:
            return rt.fail('C03:%s-does-not-decode-to-the-location:entries-on-several-volumes' % ('list' if reader == 0 else 'restore'),
                           '%s shows %r, the entries were trashed from %r' % ('trash-list' if reader == 0 else 'trash-restore', got, want))
        return rt.ok()


def w_manyvols(order: int, nm: int, reader: int) -> str:
    """
    pre: 0 <= order < 3 and 0 <= nm < 4 and 0 <= reader < 2
    post: _ == ''
    """
    return _manyvols(rt.sel(order, 3), rt.sel(nm, 4), rt.sel(reader, 2))


def w_tdopt(kind: int, entry: int, nm: int, relink: bool) -> str:
    """
    pre: 0 <= kind < 6 and 0 <= entry < 3 and 0 <= nm < 4
    post: _ == ''
    """
    return _tdopt_case(rt.sel(kind, 6), rt.sel(entry, 3), rt.sel(nm, 4), rt.selb(relink))


def w_bytes(i: int, layout: int, depth: int) -> str:
    """
    pre: PARTITION is None or layout == PARTITION
    pre: 0 <= i < 285 and 0 <= layout < 3 and 0 <= depth < 3
    post: _ == ''
    """
    return _bytes_case(rt.sel(i, 285), rt.sel(layout, 3), rt.sel(depth, 3))


def obligations(tier):
    n = 4 if tier == 'quick' else 5
    obs = [
        ZQ('Z_template_layout', MOD, 'z_template', timeout=120, encodes=['trashcli.put.format_trash_info (whole module, from its AST)'],
           bounds='all quoter outputs Q and date texts D (unbounded z3 strings)', stubs=['quoter -> free variable Q', 'strftime -> free variable D']),
        ZQ('Z_codec_roundtrip', MOD, 'z_codec', args=['roundtrip', n], timeout=1800 if tier == 'thorough' else 300,
           encodes=['format_original_location -> parse_path (observed quoter/safe/un-quoter)'],
           bounds='all strings of 1..%d code points (no NUL, no surrogates)' % n, outside='longer names (per-character independence of the codec assumed)'),
        ZQ('Z_codec_alphabet', MOD, 'z_codec', args=['alphabet', 3], timeout=300, encodes=['format_original_location'],
           bounds='all strings of 1..3 code points'),
        ZQ('Z_decoder_equals_spec', MOD, 'z_codec', args=['decoder', 8], timeout=300, encodes=['parse_path / ParseTrashInfo un-quoter'],
           bounds='all ASCII texts of 1..8 symbols'),
        ZQ('Z_date_roundtrip', MOD, 'z_date', timeout=60, encodes=['format_date', 'ParseTrashInfo.parse_trashinfo (format constant)', 'Clock.get_now_value (TRASH_DATE format)'],
           bounds='all field values: year 1000..9999, month, day 1..31, hour, minute, second'),
        ZQ('Z_clock_is_local_now', MOD, 'z_clock', timeout=30, encodes=['RealClock.now (AST)'], bounds='syntactic'),
        CH('K_read_first_path_value', MOD, 'k_read', timeout=300, partitions=list(range(6)), engine='K', regime='traced', encodes=['parse_path'],
           stubs=['unquote -> recorder'], bounds='value: any str len<=4 without newline; 6 prefixes x 5 suffixes of other lines (symbolic selectors)'),
        CH('K_location_relative_or_absolute', MOD, 'k_location', timeout=600, engine='K', regime='traced',
           encodes=['OriginalLocation.for_file', 'OriginalLocation._calc_parent_path'], stubs=['realpath -> symbolic parent'],
           bounds='volume: any mount-point-shaped str len<=3; parent = volume or volume/rest (rest any str len<=3); name from a table of 4 (names are the codec obligations)'),
        CH('K_location_outside_volume_untouched', MOD, 'k_location_outside', timeout=300, engine='K', regime='traced',
           encodes=['OriginalLocation._calc_parent_path'], bounds='volume: any str len 2..3 starting with /; parent = volume + tail, tail any str len<=3 not starting with /'),
        CH('W_every_byte_value', MOD, 'w_bytes', timeout=900, partitions=[0, 1, 2], engine='W', regime='selector',
           encodes=K.PUT_FUNCS + K.LIST_FUNCS, stubs=K.STUBS,
           bounds='names: every single byte 1..255 except "/" (0x80.. as undecodable bytes) + 30 special names incl. 255-byte names x 3 layouts x 3 depths (top level, two short components, six 240-byte CJK components: a .trashinfo of 4.4 KB)'),
        CH('W_path_rule_over_locations_and_trash_dir_states', MOD, 'w_form', timeout=1200, partitions=list(range(8)), engine='W', regime='selector', encodes=K.PUT_FUNCS, stubs=K.STUBS,
           bounds="C07's grid: 8 entry locations (incl. symlinks to a directory of another volume spelled with slashes) x 3 .Trash states x 5 .Trash-uid states x 7 home variants x fallback off / on / off with an entry reached through the link trashed first in the same run"),
        CH('W_path_rule_after_candidate_fallthrough', MOD, 'w_fall', timeout=600, engine='W', regime='selector',
           encodes=K.PUT_FUNCS, stubs=K.STUBS + ['persistent errno on one directory'],
           bounds='3 fall-through directions (home->.Trash-uid, .Trash-uid->home fallback, .Trash/uid->.Trash-uid) x 4 errnos x 6 kinds'),
        CH('W_entries_on_three_volumes_read_in_one_run', MOD, 'w_manyvols', timeout=300, engine='W', regime='selector',
           encodes=K.PUT_FUNCS + K.LIST_FUNCS + K.RESTORE_FUNCS + ['InfoDirSearcher.all_file_in_info_dir'], stubs=K.STUBS,
           bounds='one entry trashed by trash-put on each of 3 volumes (home, /v, /w) in 3 orders x 4 names, then trash-list / trash-restore over all trash directories'),
        CH('W_explicit_trash_dir_write_then_read', MOD, 'w_tdopt', timeout=600, engine='W', regime='selector',
           encodes=K.PUT_FUNCS + K.LIST_FUNCS + K.RESTORE_FUNCS, stubs=K.STUBS,
           bounds='trash-put --trash-dir T then trash-list / trash-restore --trash-dir T: 6 spellings of T (directory on the same / another volume, symbolic link crossing volumes either way, '
                  'link on one volume, relative spelling) x 3 entry locations x 4 names x the location free / occupied by a symbolic link after the trashing'),
    ]
    return obs

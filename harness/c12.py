"""C12 -- trash-rm removes exactly the entries whose original name matches the pattern."""
from vf import rt, scen, world as W
from vf.commands import C
from vf.runner import CH
from harness import common as K, kpair

PARTITION = None
MOD = 'harness.c12'
META = {
    'level': 'other',
    'explanation': 'Bounded symbolic checking with CrossHair/z3. K_glue: the real Filter.matches over ALL pattern / location '
                   'strings up to the bound with fnmatch.fnmatchcase replaced by a recorder: the subject handed to the '
                   'matcher is the base name, or the full path iff the pattern starts with "/", the pattern is passed '
                   'unmodified and the function called is the case-sensitive one. W: the real trash-rm main() on the '
                   'PosixModel over symbolic selectors (pattern, set of trashed names, directories/volumes); the oracle '
                   'uses an independent glob matcher over the .trashinfo contents decoded by an independent parser.',
    'assumptions': ['PosixModel fidelity (./check MODEL)', "fnmatch.fnmatchcase's own semantics are the stdlib's; the W "
                    'oracle cross-checks them on the table with an independent matcher'],
}


# ----------------------------------------------------------------- reference
def ref_glob(name, pat):
    """independent shell-style matcher: * ? [seq] [!seq], case-sensitive, whole-string"""
    return _m(name, 0, pat, 0)


def _m(s, i, p, j):
    while j < len(p):
        c = p[j]
        if c == '*':
            k = i
            while k <= len(s):
                if _m(s, k, p, j + 1):
                    return True
                k += 1
            return False
        if i >= len(s):
            return False
        if c == '?':
            i += 1
            j += 1
            continue
        if c == '[':
            end = j + 1
            if end < len(p) and p[end] == '!':
                end += 1
            if end < len(p) and p[end] == ']':
                end += 1
            while end < len(p) and p[end] != ']':
                end += 1
            if end >= len(p):  # no closing bracket: literal '['
                if s[i] != '[':
                    return False
                i += 1
                j += 1
                continue
            body = p[j + 1:end]
            neg = body.startswith('!')
            if neg:
                body = body[1:]
            hit = False
            k = 0
            while k < len(body):
                if k + 2 < len(body) and body[k + 1] == '-':
                    if body[k] <= s[i] <= body[k + 2]:
                        hit = True
                    k += 3
                else:
                    if body[k] == s[i]:
                        hit = True
                    k += 1
            if hit == neg:
                return False
            i += 1
            j = end + 1
            continue
        if s[i] != c:
            return False
        i += 1
        j += 1
    return i == len(s)


# ----------------------------------------------------------------------- K
REC = []


def _rec_fnmatchcase(name, pat):
    REC.append(('fnmatchcase', name, pat))
    return True


def _rec_fnmatch(name, pat):
    REC.append(('fnmatch', name, pat))
    return True


class _FakeFnmatch(object):
    fnmatchcase = staticmethod(_rec_fnmatchcase)
    fnmatch = staticmethod(_rec_fnmatch)


def k_glue(pat: str, loc: str) -> str:
    """
    pre: 1 <= len(pat) <= 3 and 1 <= len(loc) <= 5
    pre: loc.startswith('/')
    post: _ == ''
    """
    rt.begin()
    import trashcli.rm.filter as flt
    saved = flt.fnmatch
    flt.fnmatch = _FakeFnmatch
    del REC[:]
    try:
        flt.Filter(pat).matches(loc)
    finally:
        flt.fnmatch = saved
    if len(REC) == 0:
        return rt.not_applicable('fnmatch-seam-not-used', 'Filter(%r).matches(%r) did not call filter.fnmatch.*: matching happens somewhere else now' % (pat, loc))
    if len(REC) != 1:
        return rt.fail('C12:matcher-not-called-once', 'pattern %r location %r: calls %r' % (pat, loc, REC))
    fn, subj, p = REC[0]
    if fn != 'fnmatchcase':
        return rt.fail('C12:case-insensitive-matcher', 'Filter.matches used %s' % fn)
    if p != pat:
        return rt.fail('C12:pattern-modified', 'pattern %r handed over as %r' % (pat, p))
    i = len(loc)
    while i > 0 and loc[i - 1] != '/':
        i -= 1
    base = loc[i:]
    want = loc if pat[0] == '/' else base
    if subj != want:
        return rt.fail('C12:wrong-subject', 'pattern %r location %r: matched against %r, expected %r' % (pat, loc, subj, want))
    return rt.ok()


# ----------------------------------------------------------------------- W
PATTERNS = ['*', '?', 'a', 'A', 'a*', '*.o', '[ab]', '[!a]', '/v/d/a', '/v/d/*', '/*', '[*]', 'a?', '*a*', '/v/e/a',
            '/h/w/a', 'b.o', '??', '*[*?]*', '[a-c]', 'ab', '/v/*/a', '/v/d/[ab]*', 'a b', '*\n*', '/', 'a+b', 'a b', 'c++', 'c  ', 'a?b']
NAMES = ['a', 'A', 'ab', 'b.o', '*', '?a', '[ab]', 'a b', 'c', 'x\ny', 'a+b', 'c++']
SETS = [[0, 1, 2], [3, 4, 5], [6, 7, 8], [0, 9, 4], [0, 1, 2, 3, 4, 5, 6, 7, 8, 9], [7, 10, 11]]
# placement of entry j: (trash dir, original dir)
PLACES = [('/v/.Trash-1000', '/v/d'), ('/v/.Trash/1000', '/v/e'), ('/h/.local/share/Trash', '/h/w'), ('/v/.Trash-1000', '/v/e'),
          ('/w/.Trash-1000', '/w/d'),  # (/w: a second volume that shares its device string with /v)
          ('/u/relocated', '/u/d')]    # (/u/.Trash-1000 is a symbolic link to /u/relocated: trash-put trashes through it)
NPL = len(PLACES)


def _case(pat, eset, shift, dupe):
    with rt.untraced():
        rt.begin((PATTERNS[pat], SETS[eset], shift, dupe))
        nodes = [W.d('/h'), W.d('/v/.Trash', 0o1777), W.f('/v/keep', 'KEEP', 0o644, 800), W.d('/u/relocated', 0o700), W.l('/u/.Trash-1000', 'relocated', 810)] + K.sentinels('/v/out')
        entries = []
        for j, ni in enumerate(SETS[eset]):
            td, od = PLACES[(j + shift) % NPL]
            loc = od + '/' + NAMES[ni]
            pv = loc if td.startswith('/h') else loc[len('/v/'):]  # (/v/ and /w/ have the same length)
            # (a '+' is written literally, as other implementations do: it stands for itself, not for a space)
            nodes += K.trashed(td, 'e%d' % j, pv if '+' in pv else K.quote(pv), '2020-01-01T00:00:00', K.KINDS[(j + shift) % 6], 2000 + 20 * j)
            entries.append((td, 'e%d' % j, loc))
            if dupe and j == 0:
                td2, od2 = PLACES[(j + shift + 1) % NPL]
                loc2 = od2 + '/' + NAMES[ni]
                pv2 = loc2 if td2.startswith('/h') else loc2[len('/v/'):]
                nodes += K.trashed(td2, 'dup', K.quote(pv2), '2020-01-02T00:00:00', 'file', 2500)
                entries.append((td2, 'dup', loc2))
        # an entry whose .trashinfo cannot be decoded (not UTF-8), listed right after the last readable one: it matches no
        # pattern (its Path is unknown) - it must survive whatever its neighbour's Path was
        td_last = entries[-1][0]
        nodes += [W.f(td_last + '/info/zzbad.trashinfo', b'[Trash Info]\nPath=w/\xff\xfe\nDeletionDate=2020-01-01T00:00:00\n', 0o600, 2600),
                  W.f(td_last + '/files/zzbad', 'BAD', 0o644, 2601)]
        world = W.W(mounts=K.MOUNTS + ['/w', '/u'], cwd='/v', nodes=nodes)
        p = PATTERNS[pat]
        steps = [{'snap': '/'}, C('rm', [p], scen.env(), cwd='/v'), {'snap': '/'}]
        m, res = scen.run_model(world, steps)
        before, r, after = res
        label = 'pattern=%r' % p
        if r['exc']:
            return rt.fail('C12:traceback:%s:%s' % (r['exc'].split(':')[0], label), r['exc'])
        for td, name, loc in entries:
            # independent reading of the written info
            ok, pth, _ = scen.spec_parse_info(scen.sub(before, td + '/info/' + name + '.trashinfo')[2])
            full = pth if pth.startswith('/') else td[:3] + pth
            if full != loc:
                return rt.fail('C12:harness', 'reference decoding disagrees %r %r' % (full, loc))
            subject = full if p.startswith('/') else full.rsplit('/', 1)[1]
            want = ref_glob(subject, p)
            pa, ia = scen.sub(after, td + '/files/' + name), scen.sub(after, td + '/info/' + name + '.trashinfo')
            if want:
                if pa is not None or ia is not None:
                    return rt.fail('C12:matching-entry-not-removed:' + label, '%r matches %r but %s/%s survives (payload %s, info %s)' % (
                        subject, p, td, name, pa is not None, ia is not None))
            else:
                if pa != scen.sub(before, td + '/files/' + name) or ia != scen.sub(before, td + '/info/' + name + '.trashinfo'):
                    return rt.fail('C12:non-matching-entry-touched:' + label, '%r does not match %r but %s/%s changed' % (subject, p, td, name))
        removed, added, changed = scen.delta(before, after)
        if added or changed:
            return rt.fail('C12:collateral:' + label, 'added=%r changed=%r' % (sorted(added)[:4], sorted(changed)[:4]))
        for q in removed:
            if not any(scen.is_under(q, td + '/files/' + n) or q == td + '/info/' + n + '.trashinfo' for td, n, _ in entries):
                return rt.fail('C12:removed-unexpected:' + label, repr(q))
        return rt.ok()


FAULT_OPS = [('unlink', 13), ('unlink', 30), ('rmdir', 13), ('rmdir', 39), ('unlink', 16), ('rmdir', 16)]
FAULT_KINDS = ['file', 'dir', 'link-dir']


def _fault_case(op, kind, nth, where):
    """one removal performed by trash-rm fails (the payload, something inside it, or the .trashinfo): afterwards no
    payload is left WITHOUT its .trashinfo (such a payload can be matched, listed, restored by nothing any more); a
    .trashinfo left without payload is the safe half-way state (a re-run of the same trash-rm finishes the removal)"""
    with rt.untraced():
        name, eno = FAULT_OPS[op]
        rt.begin(('fault', name, eno, FAULT_KINDS[kind], nth, where))
        td = '/v/.Trash-1000'
        nodes = [W.d('/h'), W.d('/v/d'), W.f('/v/keep', 'KEEP', 0o644, 800)] + K.sentinels('/v/out')
        nodes += K.trashed(td, 'report', 'd/report', '2020-01-01T00:00:00', FAULT_KINDS[kind], 2000)
        nodes += K.trashed(td, 'report2', 'd/report2', '2020-01-02T00:00:00', 'file', 2040)
        nodes += K.trashed(td, 'other', 'd/other', '2020-01-03T00:00:00', 'file', 2060)
        world = W.W(mounts=K.MOUNTS, cwd='/v/d', nodes=nodes)
        sub = ('/files/' if where == 0 else '/info/')
        hook = scen.OneShotFault(name, eno, pred=lambda a: bool(a) and isinstance(a[0], str) and (td + sub) in a[0], nth=nth)
        m, res = scen.run_model(world, [{'snap': '/'}, C('rm', ['report*'], scen.env(), cwd='/v/d'), {'snap': '/'}], hook=hook)
        before, r, after = res
        label = '%s(errno %d) on the %s side:%s' % (name, eno, 'payload' if where == 0 else 'info', FAULT_KINDS[kind])
        if not hook.injected:
            return rt.ok()
        ents = scen.trash_entries(after, td)
        was = scen.trash_entries(before, td)
        for nm in ('report', 'report2', 'other'):
            got = ents.get(nm)
            if got is None:
                if nm == 'other':
                    return rt.fail('C12:non-matching-removed:under-fault:' + label, nm)
                continue
            info, payload = got
            if info is None:
                return rt.fail('C12:entry-half-removed:payload-left-without-info:' + label,
                               'entry %r after a failed removal: info %s, payload %s; exit %r stderr %r' % (
                                   nm, 'present' if info is not None else 'gone', 'present' if payload is not None else 'gone', r['exit'], r['err'][-200:]))
            if nm == 'other' and got != was.get(nm):
                return rt.fail('C12:non-matching-changed:under-fault:' + label, nm)
        return rt.ok()


def w_fault(op: int, kind: int, nth: int, where: int) -> str:
    """
    pre: 0 <= op < 6 and 0 <= kind < 3 and 0 <= nth < 3 and 0 <= where < 2
    post: _ == ''
    """
    return _fault_case(rt.sel(op, 6), rt.sel(kind, 3), rt.sel(nth, 3), rt.sel(where, 2))


def w_main(pat: int, eset: int, shift: int, dupe: bool) -> str:
    """
    pre: PARTITION is None or eset == PARTITION
    pre: 0 <= pat < 31 and 0 <= eset < 6 and 0 <= shift < 6
    post: _ == ''
    """
    return _case(rt.sel(pat, 31), rt.sel(eset, 6), rt.sel(shift, 6), rt.selb(dupe))


def obligations(tier):
    return kpair.obligations(tier) + [
        CH('K_filter_glue_all_strings', MOD, 'k_glue', timeout=240, engine='K', regime='traced',
           encodes=['trashcli.rm.filter.Filter.matches'], stubs=['fnmatch.fnmatchcase -> recorder'],
           bounds='pattern: any str 1<=len<=3; location: any absolute str len<=5'),
        CH('W_pattern_x_names', MOD, 'w_main', timeout=900, partitions=list(range(6)), engine='W', regime='selector',
           encodes=K.RM_FUNCS, stubs=K.STUBS,
           bounds='31 patterns x 6 name sets (12 names, incl. a+b, c++) x 6 placements over 5 trash dirs on 4 volumes (two of them with the same device string, one whose .Trash-uid is a symbolic link to a directory) x duplicate base name'),
        CH('W_one_failing_removal', MOD, 'w_fault', timeout=600, engine='W', regime='selector', encodes=K.RM_FUNCS + ['CleanableTrashcan.delete_trash_info_and_backup_copy'],
           stubs=K.STUBS + ['one system call of the removal fails once'],
           bounds='trash-rm of a pattern matching 2 of 3 entries; the n-th (0..2) unlink / rmdir under files/ or info/ fails (EACCES, EROFS, ENOTEMPTY, EBUSY) x entry a file / a tree / a link to a directory'),
    ]

"""C07 -- trash-put picks the trash dir the spec prescribes, on the file's own volume."""
from vf import rt, scen, world as W, commands
from vf.commands import C
from vf.runner import CH
from harness import common as K
from vf import sched

PARTITION = None
MOD = 'harness.c07'
META = {
    'level': 'other',
    'explanation': 'Bounded symbolic checking with CrossHair/z3. K_home: the real home_trash_dir_path_from_env over symbolic '
                   'presence/emptiness of XDG_DATA_HOME and HOME and symbolic values; K_volume: the real '
                   'VolumeOfImpl.volume_of against a symbolic mount predicate (longest mount-point prefix). W: the real '
                   'trash-put main() on the PosixModel over symbolic selectors (mount layout, where the file lives incl. '
                   'symlinked parents crossing volumes and nested mounts, state of .Trash and .Trash-uid, home trash '
                   'variants incl. symlink to another volume, XDG_DATA_HOME set/unset/empty, HOME unset, uid, --trash-dir, '
                   'fallback switches); oracle: a reference choice function written from the FreeDesktop text, mode 0700 of '
                   'created trash directories, same st_dev (virtual mount table) of source parent and chosen directory.',
    'assumptions': ['PosixModel fidelity (./check MODEL)', 'virtual mount table injected via os.path.ismount of the model'],
}


class _IsMount(object):
    def __init__(self, mounts):
        self.mounts = mounts

    def is_mount(self, p):
        return p in self.mounts


def k_volume(path: str, m1: str, m2: str) -> str:
    """
    pre: 1 <= len(path) <= 5 and len(m1) <= 3 and len(m2) <= 4
    pre: path.startswith('/') and m1.startswith('/') and m2.startswith('/')
    pre: '//' not in path and not (len(path) > 1 and path.endswith('/'))
    pre: '/./' not in path + '/' and '/../' not in path + '/'
    post: _ == ''
    """
    rt.begin()
    from trashcli.fstab.volume_of_impl import VolumeOfImpl
    mounts = ['/', m1, m2]
    got = VolumeOfImpl(_IsMount(mounts), lambda p: p).volume_of(path)
    best = '/'
    for m in (m1, m2):
        if (path == m or (path.startswith(m) and (m.endswith('/') or path[len(m):len(m) + 1] == '/'))) and len(m) > len(best) \
                and not (len(m) > 1 and m.endswith('/')):
            best = m
    if got != best:
        return rt.fail('C07:volume-of', 'volume_of(%r) with mounts %r = %r, longest mount prefix is %r' % (path, mounts, got, best))
    return rt.ok()


WHERE = ['home-volume', 'v', 'nested-v-n', 'via-link-into-v', 'via-link-into-root', 'mount-root-of-v', 'symlink-to-dir-on-v-with-slash',
         'symlink-to-dir-on-root-with-slashes']
ALT = ['absent', 'dir', 'file', 'link-other-volume', 'link-same-volume']
HOMEK = ['normal', 'home-trash-link-to-v', 'xdg-set', 'xdg-empty', 'home-unset', 'home-on-own-volume', 'xdg-set-on-v']
UIDS = [1000, 0, 2 ** 31]
TDOPT = [None, 'same-volume', 'other-volume', 'same-volume-existing']
FALLBACK = [(False, None), (True, None), (False, '1'), (True, '1'), (True, '0'), (True, 'yes')]  # enabled only by the option AND the value 1


FIRST = ['alone', 'after-a-file-of-the-home-volume', 'after-a-file-of-another-volume', 'uid-dir-left-by-an-earlier-run', 'after-an-entry-reached-through-it']


def scenario(where, top, alt, hk, uid, tdo, fb, first=0):
    mounts = ['/', '/v', '/v/n']
    nodes = [W.d('/h'), W.d('/v/d'), W.d('/v/n/d'), W.d('/r/d'), W.f('/v/keep', 'KEEP', 0o644, 800)]
    env = {'HOME': '/h'}
    h = HOMEK[hk]
    if h == 'home-trash-link-to-v':
        nodes += [W.d('/h/.local/share'), W.d('/v/hometrash', 0o700), W.l('/h/.local/share/Trash', '/v/hometrash', 930)]
    elif h == 'xdg-set':
        env['XDG_DATA_HOME'] = '/h/xdg'
    elif h == 'xdg-set-on-v':
        env['XDG_DATA_HOME'] = '/v/xdg'
    elif h == 'xdg-empty':
        env['XDG_DATA_HOME'] = ''
    elif h == 'home-unset':
        del env['HOME']
    elif h == 'home-on-own-volume':
        mounts = ['/', '/v', '/v/n', '/hv']
        env['HOME'] = '/hv/u'
        nodes.append(W.d('/hv/u'))
    w = WHERE[where]
    if w == 'home-volume':
        fdir, arg = ('/hv/u/w', '/hv/u/w/x') if h == 'home-on-own-volume' else ('/r/d', '/r/d/x')
        nodes.append(W.d(fdir))
    elif w == 'v':
        fdir, arg = '/v/d', '/v/d/x'
    elif w == 'nested-v-n':
        fdir, arg = '/v/n/d', '/v/n/d/x'
    elif w == 'via-link-into-v':
        nodes.append(W.l('/r/lv', '/v/d', 931))
        fdir, arg = '/v/d', '/r/lv/x'
    elif w == 'via-link-into-root':
        nodes.append(W.l('/v/lr', '/r/d', 932))
        fdir, arg = '/r/d', '/v/lr/x'
    elif w == 'symlink-to-dir-on-v-with-slash':
        fdir, arg = '/r/d', '/r/d/x/'
    elif w == 'symlink-to-dir-on-root-with-slashes':
        fdir, arg = '/v/d', '/v/d/x//'
    else:
        fdir, arg = '/v', '/v/x'
    if w == 'symlink-to-dir-on-v-with-slash':
        # the entry is a symbolic link living on the root volume whose target is a directory on /v
        nodes += [W.d('/v/tgt'), W.f('/v/tgt/in', 'IN', 0o644, 940), W.l('/r/d/x', '/v/tgt', 1000)]
    elif w == 'symlink-to-dir-on-root-with-slashes':
        nodes += [W.d('/r/tgt'), W.f('/r/tgt/in', 'IN', 0o644, 941), W.l('/v/d/x', '/r/tgt', 1000)]
    else:
        nodes += K.entry_nodes('dir', fdir + '/x', 1000, out='/v/out')
    nodes += K.sentinels('/v/out')
    # the file's volume
    fvol = '/'
    for mp in mounts:
        if (fdir == mp or fdir.startswith(mp.rstrip('/') + '/')) and len(mp) > len(fvol):
            fvol = mp
    tn, real_top = K.top_state_nodes(fvol, top)
    nodes += tn
    if FIRST[first] == 'uid-dir-left-by-an-earlier-run' and real_top is not None:
        # $topdir/.Trash/$uid/{files,info} exist already (an earlier run made them when .Trash was still acceptable)
        nodes += [W.d(real_top + '/%d' % UIDS[uid], 0o700), W.d(real_top + '/%d/files' % UIDS[uid], 0o700), W.d(real_top + '/%d/info' % UIDS[uid], 0o700)]
    a = ALT[alt]
    altp = fvol.rstrip('/') + '/.Trash-%d' % UIDS[uid]
    if a == 'dir':
        nodes += [W.d(altp, 0o700)]
    elif a == 'file':
        nodes.append(W.f(altp, 'x', 0o644, 933))
    elif a == 'link-other-volume':
        other = '/elsewhere' if fvol != '/' else '/v/elsewhere'
        nodes += [W.d(other, 0o700), W.l(altp, other, 934)]
    elif a == 'link-same-volume':
        same = fvol.rstrip('/') + '/sametrash'
        nodes += [W.d(same, 0o700), W.l(altp, same, 935)]
    args = []
    t = TDOPT[tdo]
    tdpath = None
    if t == 'same-volume':
        tdpath = fvol.rstrip('/') + '/mytrash'
    elif t == 'same-volume-existing':
        tdpath = fvol.rstrip('/') + '/mytrash'
        nodes += [W.d(tdpath, 0o755), W.d(tdpath + '/files', 0o755), W.d(tdpath + '/info', 0o755)]
    elif t == 'other-volume':
        tdpath = '/othertrash' if fvol != '/' else '/v/othertrash'
    if tdpath:
        args += ['--trash-dir', tdpath]
    hf, ev = FALLBACK[fb]
    if hf:
        args.append('--home-fallback')
    if ev:
        env['TRASH_ENABLE_HOME_FALLBACK'] = ev
    before_it = []
    if FIRST[first] == 'after-a-file-of-the-home-volume' and 'HOME' in env:
        # one invocation, two arguments on (possibly) different volumes: the choice for the second must not depend on the first
        pre = env['HOME'].rstrip('/') + '/zfirst'
        nodes.append(W.f(pre, 'FIRST', 0o644, 960))
        before_it = [pre]
    elif FIRST[first] == 'after-a-file-of-another-volume':
        pre = ('/v/n/zfirst' if fvol != '/v/n' else '/v/zfirst')
        nodes.append(W.f(pre, 'FIRST', 0o644, 961))
        before_it = [pre]
    elif FIRST[first] == 'after-an-entry-reached-through-it' and w.startswith('symlink-to-dir-on-'):
        # `trash-put link/in link/`: the first argument lives on the volume the link points into, the link itself does not
        before_it = [arg.rstrip('/') + '/in']
    world = W.W(mounts=mounts, cwd='/', nodes=nodes)
    step = C('put', args + ['--'] + before_it + [arg], env, uid=UIDS[uid], cwd='/')
    return world, step, env, fdir, fvol, tdpath, (hf and ev == '1')


def home_path(env):
    x = env.get('XDG_DATA_HOME')
    if x:
        return x + '/Trash'
    if 'HOME' in env:
        return env['HOME'] + '/.local/share/Trash'
    return None


def reference(m, env, uid, fvol, top, tdpath, fallback):
    """the directory the FreeDesktop text prescribes (or None = must fail), evaluated on the pre-state"""
    fac = commands.install_model_backend()
    fac.set_world(m, env, uid)

    def vol(p):
        rp = fac.path.realpath(p)
        while rp != '/' and not fac.path.ismount(rp):
            rp = fac.path.dirname(rp)
        return rp

    def creatable(p):
        # walking up from p: the first existing ancestor must be a directory
        q = p
        while not fac.path.lexists(q):
            q = fac.path.dirname(q)
        return fac.path.isdir(q)

    cands = []
    if tdpath:
        cands.append((tdpath, False, False))
    else:
        home = home_path(env)
        if home:
            cands.append((home, False, False))
        cands.append((fvol.rstrip('/') + '/.Trash/%d' % uid, True, False))
        cands.append((fvol.rstrip('/') + '/.Trash-%d' % uid, False, False))
        if fallback and home:
            cands.append((home, False, True))
    for path, topcheck, anyvol in cands:
        if topcheck and not K.secure(top):
            continue
        if not anyvol and vol(path) != fvol:
            continue
        if not creatable(path):
            continue
        return path
    return None


def _case(where, top, alt, hk, uid, tdo, fb, first=0):
    with rt.untraced():
        rt.begin((WHERE[where], K.TOP_STATES[top], ALT[alt], HOMEK[hk], UIDS[uid], TDOPT[tdo], FALLBACK[fb]))
        world, step, env, fdir, fvol, tdpath, fallback = scenario(where, top, alt, hk, uid, tdo, fb, first)
        label = 'file=%s:home=%s' % (WHERE[where], HOMEK[hk]) + (':' + FIRST[first] if first else '')
        m = W.build_model(world)
        want = reference(m.clone(), env, UIDS[uid], fvol, top, tdpath, fallback)
        m.hook = None
        before = m.snap('/')
        payload = scen.sub(before, fdir + '/x')
        _, r = scen.run_model(None, [step], model=m)
        r = r[0]
        after = m.snap('/')
        if r['exc']:
            return rt.fail('C07:traceback:%s:%s' % (r['exc'].split(':')[0], label), r['exc'])
        where_now = [p for p in scen.find_equal(after, payload)]
        if payload[0] == 'l' and not where_now:
            # a symbolic link moved across devices is re-created (shutil.move): its own mtime is not kept.
            # That is C01's recorded finding, not a question of WHICH directory was chosen: locate it by target
            where_now = [p for p, v in W.flatten(after).items() if v[0] == 'l' and v[1] == payload[1]
                         and (p == fdir + '/x' or '/files/' in p)]
        if want is None:
            if where_now != [fdir + '/x'] or (r['exit'] == 0 and first in (0, 3)):
                return rt.fail('C07:should-fail:' + label, 'no prescribed directory is usable, yet exit=%r and the entry is at %r' % (r['exit'], where_now))
            return rt.ok()
        fac = commands.install_model_backend()
        fac.set_world(m, env, UIDS[uid])
        real_want = fac.path.realpath(want)
        if len(where_now) != 1 or not where_now[0].startswith(real_want + '/files/') or (r['exit'] != 0 and first in (0, 3)):
            got_dirs = [p.rsplit('/files/', 1)[0] for p in where_now if '/files/' in p]
            return rt.fail('C07:wrong-dir:%s:alt=%s:tdopt=%s' % (label, ALT[alt], TDOPT[tdo]),
                           'the spec prescribes %s (-> %s); entry is at %r, exit %r, stderr %r' % (want, real_want, where_now, r['exit'], r['err'][-300:]))
        # created trash directories are private
        removed, added, changed = scen.delta(before, after)
        for p, v in added.items():
            if v[0] == 'd' and (p == real_want or p in (real_want + '/files', real_want + '/info')):
                if v[1] != 0o700:
                    return rt.fail('C07:created-dir-not-0700:' + label, '%s created with mode %o' % (p, v[1]))
        # same device unless the fallback is fully enabled
        dev_td = m.dev_of(m.resolve(real_want, True).cpath)
        dev_src = m.dev_of(m.resolve(fdir, True).cpath)
        if dev_td != dev_src and not fallback:
            return rt.fail('C07:cross-device-without-fallback:' + label, 'trash dir %s (dev %d) vs source dir %s (dev %d)' % (real_want, dev_td, fdir, dev_src))
        return rt.ok()


def w_main(where: int, top: int, alt: int, hk: int, uid: int) -> str:
    """
    pre: PARTITION is None or where == PARTITION
    pre: 0 <= where < 8 and 0 <= top < 9 and 0 <= alt < 5 and 0 <= hk < 7 and 0 <= uid < 3
    post: _ == ''
    """
    return _case(rt.sel(where, 8), rt.sel(top, 9), rt.sel(alt, 5), rt.sel(hk, 7), rt.sel(uid, 3), 0, 0)


def w_second(where: int, top: int, alt: int, hk: int, first: int) -> str:
    """
    pre: PARTITION is None or where == PARTITION
    pre: 0 <= where < 8 and 0 <= top < 3 and 0 <= alt < 5 and 0 <= hk < 7 and 0 <= first < 3
    post: _ == ''
    """
    return _case(rt.sel(where, 8), rt.of([0, 1, 2], top), rt.sel(alt, 5), rt.sel(hk, 7), 0, 0, 0, rt.of([1, 2, 4], first))


def w_left(where: int, top: int, alt: int, hk: int) -> str:
    """
    pre: PARTITION is None or where == PARTITION
    pre: 0 <= where < 8 and 0 <= top < 9 and 0 <= alt < 5 and 0 <= hk < 7
    post: _ == ''
    """
    return _case(rt.sel(where, 8), rt.sel(top, 9), rt.sel(alt, 5), rt.sel(hk, 7), 0, 0, 0, 3)


def w_opts(where: int, top: int, alt: int, hk: int, tdo: int, fb: int) -> str:
    """
    pre: PARTITION is None or where == PARTITION
    pre: 0 <= where < 8 and 0 <= top < 3 and 0 <= alt < 5 and 0 <= hk < 7 and 0 <= tdo < 4 and 0 <= fb < 6
    post: _ == ''
    """
    return _case(rt.sel(where, 8), rt.of([0, 1, 2], top), rt.sel(alt, 5), rt.sel(hk, 7), 0, rt.sel(tdo, 4), rt.sel(fb, 6))


def w_full(where: int, top: int, alt: int, hk: int, uid: int, tdo: int, fb: int) -> str:
    """
    pre: PARTITION is None or (where == PARTITION[0] and top == PARTITION[1])
    pre: 0 <= where < 8 and 0 <= top < 9 and 0 <= alt < 5 and 0 <= hk < 7 and 0 <= uid < 3 and 0 <= tdo < 4 and 0 <= fb < 6
    post: _ == ''
    """
    return _case(rt.sel(where, 8), rt.sel(top, 9), rt.sel(alt, 5), rt.sel(hk, 7), rt.sel(uid, 3), rt.sel(tdo, 4), rt.sel(fb, 6))


# ---------------------------------------------------------------- two concurrent runs, first use of the volume
CONC_PRE = [3, 0]  # indices into c04.CONC_PRE: sticky .Trash without $uid yet (-> .Trash/$uid); nothing yet (-> .Trash-$uid)


def _conc(kp, pre, a1, b1):
    """two trash-put race for the not-yet-existing trash directory of the volume: whatever the interleaving,
    each must end up in the directory the spec prescribes (not in a later candidate, not failing)"""
    from harness import c04
    with rt.untraced():
        pre4 = CONC_PRE[pre]
        pts = c04.shared_points(kp, pre4)
        if len(pts) > 24:
            return rt.fail('C07:bound-too-small', '%d shared instants; selectors only range over 0..23' % len(pts))
        if a1 >= len(pts) or b1 >= len(pts):
            rt.begin()
            return rt.ok()
        kinds = c04.CONC_KINDS[kp]
        world, td = c04.conc_world(kinds, pre4, 2)
        m = W.build_model(world)
        before = m.snap('/')
        e = scen.env()
        procs = [sched.Proc(C('put', ['x'], e, cwd='/v/d%d' % j, now='2020-01-0%dT00:00:00' % (j + 1)), 'P%d' % j) for j in range(2)]
        segs = [(0, pts[a1]), (1, pts[b1])]
        rt.begin(('conc', kinds, c04.CONC_PRE[pre4], segs))
        sched.run_schedule(m, procs, segs)
        after = m.snap('/')
        label = 'conc:%s:%s' % ('+'.join(kinds), c04.CONC_PRE[pre4])
        for j, p in enumerate(procs):
            src = '/v/d%d/x' % j
            payload = scen.sub(before, src)
            r = p.result
            if r['exc']:
                return rt.fail('C07:traceback-under-concurrency:' + label, '%s: %s [schedule %r]' % (p.name, r['exc'], segs))
            where = scen.find_equal(after, payload)
            ok = [q for q in where if q.startswith(td + '/files/')]
            if r['exit'] != 0 or len(ok) != 1:
                return rt.fail('C07:wrong-dir-under-concurrency:' + label, '%s: the spec prescribes %s; exit %r, entry at %r, stderr %r [schedule %r]' % (
                    p.name, td, r['exit'], where, r['err'][-300:], segs))
        return rt.ok()


def w_conc(kp: int, pre: int, a1: int, b1: int) -> str:
    """
    pre: PARTITION is None or (kp == PARTITION[0] and pre == PARTITION[1])
    pre: 0 <= kp < 5 and 0 <= pre < 2 and 0 <= a1 < 24 and 0 <= b1 < 24
    post: _ == ''
    """
    return _conc(rt.sel(kp, 5), rt.sel(pre, 2), rt.sel(a1, 24), rt.sel(b1, 24))


def obligations(tier):
    from harness import zk
    obs = zk.home_obligations(tier) + [
        CH('K_volume_of_longest_prefix', MOD, 'k_volume', timeout=300, engine='K', regime='traced',
           encodes=['VolumeOfImpl.volume_of'], stubs=['ismount -> membership in a symbolic mount list', 'abspath -> identity'],
           bounds='path: normalised absolute str len<=5; two symbolic mount points len<=3/4 plus "/"'),
        CH('W_where_x_states_x_home_x_uid', MOD, 'w_main', timeout=1200, partitions=list(range(8)), engine='W', regime='selector',
           encodes=K.PUT_FUNCS, stubs=K.STUBS, bounds='8 file locations (incl. symlinks to a directory on another volume spelled with trailing slashes) x 9 .Trash states x 5 .Trash-uid states x 7 home variants x 3 uids'),
        CH('W_trashdir_opt_and_fallback', MOD, 'w_opts', timeout=1800, partitions=list(range(8)), engine='W', regime='selector',
           encodes=K.PUT_FUNCS, stubs=K.STUBS, bounds='6 locations x 3 .Trash states x 5 .Trash-uid x 7 home variants x 4 --trash-dir x 6 fallback switches (option x environment value unset/1/0/yes)'),
    ]
    obs.append(CH('W_second_argument_independent_of_the_first', MOD, 'w_second', timeout=1200, partitions=list(range(8)), engine='W', regime='selector',
                  encodes=K.PUT_FUNCS, stubs=K.STUBS,
                  bounds='one invocation with two arguments: a file of the home volume or of another volume first, then the entry; 8 locations x 3 .Trash states x 5 .Trash-uid states x 7 home variants x 3 first arguments (a file of the home volume | of another volume | an entry reached THROUGH the link that is named next)'))
    obs.append(CH('W_uid_dir_left_by_an_earlier_run', MOD, 'w_left', timeout=1200, partitions=list(range(8)), engine='W', regime='selector',
                  encodes=K.PUT_FUNCS, stubs=K.STUBS,
                  bounds='$topdir/.Trash/$uid/{files,info} exist already (made when .Trash was still acceptable): 8 locations x all 9 .Trash states x 5 .Trash-uid states x 7 home variants'))
    cparts = [(k, p) for k in ((0, 2) if tier == 'quick' else range(5)) for p in range(2)]
    obs.append(CH('W_two_runs_race_for_a_new_trash_dir', MOD, 'w_conc', timeout=1800, partitions=cparts, engine='W', regime='selector',
                  encodes=K.PUT_FUNCS + ['vf.sched replay-stepping'], stubs=K.STUBS,
                  bounds='2 concurrent trash-put on a volume whose trash directory does not exist yet (sticky .Trash without $uid; nothing): P0 runs to its a1-th '
                         'shared instant, P1 to its b1-th, then both complete; all pairs of shared instants x %d kind pairs' % (len(cparts) // 2)))
    if tier == 'thorough':
        obs.append(CH('W_full_lattice', MOD, 'w_full', timeout=7000, partitions=[(a, b) for a in range(8) for b in range(9)], twin=False,
                      engine='W', regime='selector', encodes=K.PUT_FUNCS, stubs=K.STUBS, bounds='8 x 9 x 5 x 7 x 3 x 4 x 6 = 181440 configurations'))
    return obs

"""C06 -- trash-restore never clobbers an existing destination unless --overwrite is given."""
from vf import rt, scen, world as W
from vf.commands import C
from vf.runner import CH
from harness import common as K

PARTITION = None
MOD = 'harness.c06'
META = {
    'level': 'other',
    'explanation': 'Bounded symbolic checking (CrossHair/z3): the real trash-restore main() on the PosixModel for every '
                   'valuation of symbolic selectors (kind of pre-existing destination, kind of trashed entry, '
                   '--overwrite, single/multi-index selection, trash layout); oracle: refusal leaves destination and '
                   'pair untouched and exits non-zero; --overwrite replaces a non-directory.',
    'assumptions': ['PosixModel fidelity (./check MODEL)', 'names are representatives'],
}

DEST = ['absent', 'file', 'dir', 'link-file', 'link-dir', 'dangling', 'empty-dir']
SELECT = ['single', 'other-then-colliding', 'colliding-then-other', 'range', 'same-path-twice-range', 'same-path-twice-list',
          'single-path-through-link-dotdot', 'single-path-through-missing-dir-dotdot', 'single-name-with-a-literal-plus',
          'single-path-through-missing-dir-dotdot-dot']
NSEL = len(SELECT)
LAYOUTS = ['home', 'top', 'alt']


def scenario(dest, kind, overwrite, select, layout):
    lay = LAYOUTS[layout]
    if lay == 'home':
        td, vol, base, pv = '/h/.local/share/Trash', '/', '/h/w', lambda p: p
    elif lay == 'top':
        td, vol, base, pv = '/v/.Trash/1000', '/v', '/v/w', lambda p: p[len('/v/'):]
    else:
        td, vol, base, pv = '/v/.Trash-1000', '/v', '/v/w', lambda p: p[len('/v/'):]
    path = base + '/x'
    other = base + '/other'
    nodes = [W.d('/h'), W.d(base), W.f(base + '/keep', 'KEEP', 0o644, 800)] + K.sentinels('/v/out')
    shown = path
    if SELECT[select] == 'single-path-through-link-dotdot':
        # Path=<base>/cur/../x with cur -> <arch>/2024: the kernel resolves it to <arch>/x, a lexical normpath to <base>/x
        arch = base[:2] + '/arch'
        nodes += [W.d(arch + '/2024'), W.l(base + '/cur', arch + '/2024', 705)]
        shown = base + '/cur/../x'
        path = arch + '/x'
    literal = None
    if SELECT[select] == 'single-name-with-a-literal-plus':
        # Path=.../x+y written with an unescaped '+' (other implementations do): '+' stands for itself
        path = base + '/x+y'
        shown = path
        literal = pv(path)
    if SELECT[select] == 'single-path-through-missing-dir-dotdot':
        # Path=<base>/gone/../x where <base>/gone does not exist: the kernel cannot resolve the spelling (lexists is
        # False) although <base>/x, which it designates once the parent has been created, does exist
        shown = base + '/gone/../x'
    if SELECT[select] == 'single-path-through-missing-dir-dotdot-dot':
        # the same with a '.' after the '..' (<base>/gone/.././x): os.makedirs of the parent '<base>/gone/../.' ends in '.',
        # creates <base>/gone and returns without an error - after which the spelling DOES resolve, to the occupied <base>/x
        shown = base + '/gone/.././x'
    if lay == 'top':
        nodes.append(W.d('/v/.Trash', 0o1777))
    nodes += K.trashed(td, 'x', literal if literal is not None else K.quote(pv(shown)), '2020-01-02T00:00:00', K.KINDS[kind], 2000)
    nodes += K.trashed(td, 'other', K.quote(pv(other)), '2020-01-01T00:00:00', 'file', 2100)
    if SELECT[select].startswith('same-path-twice'):
        # a second generation of the very same original path, trashed later
        nodes += K.trashed(td, 'x_1', K.quote(pv(path)), '2020-01-03T00:00:00', 'file', 2200)
    dk = DEST[dest]
    if dk == 'file':
        nodes.append(W.f(path, 'EXISTING', 0o644, 700))
    elif dk == 'dir':
        nodes += [W.d(path, 0o755), W.f(path + '/inside', 'INSIDE', 0o644, 701)]
    elif dk == 'empty-dir':
        nodes.append(W.d(path, 0o755))
    elif dk == 'link-file':
        nodes.append(W.l(path, '/v/out/target.txt', 702))
    elif dk == 'link-dir':
        nodes.append(W.l(path, '/v/out/tdir', 703))
    elif dk == 'dangling':
        nodes.append(W.l(path, 'nowhere', 704))
    world = W.W(mounts=K.MOUNTS, cwd=base, nodes=nodes)
    # listing sorted by date: index 0 = other (01-01), index 1 = x (01-02)
    reply = {'single': '1', 'other-then-colliding': '0,1', 'colliding-then-other': '1,0', 'range': '0-1',
             'same-path-twice-range': '1-2', 'same-path-twice-list': '2,1', 'single-path-through-link-dotdot': '1',
             'single-path-through-missing-dir-dotdot': '1', 'single-name-with-a-literal-plus': '1',
             'single-path-through-missing-dir-dotdot-dot': '1'}[SELECT[select]]
    args = ['--overwrite'] if overwrite else []
    steps = [{'snap': '/'}, C('restore', args, scen.env(), stdin=[reply], cwd=base), {'snap': '/'}]
    return world, steps, td, path, other, shown


PR_DIRS = ['w', 'v', 'vv/v', 'v.d', 'h']   # (directory names made of characters that also occur in the mount point's own path)
PR_VOLS = ['/v', '/vol/v']


def _put_restore(dk, vk, occupied, sticky):
    """the entry is trashed by the real trash-put (not planted), the original location is occupied again (or not), then
    trash-restore: it refuses iff occupied, and otherwise restores to exactly where the entry came from"""
    with rt.untraced():
        vol = PR_VOLS[vk]
        base = vol + '/' + PR_DIRS[dk]
        rt.begin(('put-then-restore', base, occupied, sticky))
        path = base + '/x'
        nodes = [W.d('/h'), W.d(base), W.f(path, 'ORIGINAL', 0o644, 1000), W.f(vol + '/keep', 'KEEP', 0o644, 800)]
        if sticky:
            nodes.append(W.d(vol + '/.Trash', 0o1777))
        world = W.W(mounts=['/', vol], cwd=base, nodes=nodes)
        e = scen.env()
        m = W.build_model(world)
        _, r0 = scen.run_model(None, [C('put', ['--', 'x'], e, cwd=base, now='2020-01-02T00:00:00')], model=m)
        label = 'put-then-restore:dir=%s:volume=%s' % (PR_DIRS[dk], vol)
        if r0[0]['exit'] != 0 or r0[0]['exc']:
            return rt.fail('C06:put-failed:' + label, repr(r0[0])[:300])
        if occupied:
            m.add(path, 'f', 0o644, b'EXISTING', 700 * W.TAG_NS)
        td = vol + ('/.Trash/1000' if sticky else '/.Trash-1000')
        _, res = scen.run_model(None, [{'snap': '/'}, C('restore', [], e, stdin=['0'], cwd=base), {'snap': '/'}], model=m)
        before, r, after = res
        if r['exc']:
            return rt.fail('C06:traceback:%s:%s' % (r['exc'].split(':')[0], label), r['exc'])
        pair_before = (scen.sub(before, td + '/files/x'), scen.sub(before, td + '/info/x.trashinfo'))
        if pair_before[0] is None or pair_before[1] is None:
            return rt.fail('C06:put-went-elsewhere:' + label, 'no pair x in %s' % td)
        pair_after = (scen.sub(after, td + '/files/x'), scen.sub(after, td + '/info/x.trashinfo'))
        if occupied:
            if scen.sub(after, path) != scen.sub(before, path):
                return rt.fail('C06:clobbered:' + label, 'destination changed')
            if pair_after != pair_before:
                return rt.fail('C06:refused-but-pair-touched:' + label, 'the original location %s is occupied, yet the entry left the trash (stdout %r, exit %r)' % (path, r['out'][-200:], r['exit']))
            if r['exit'] == 0:
                return rt.fail('C06:refused-exit-0:' + label, 'exit status 0 although %s exists' % path)
            if r['err'].strip() == '':
                return rt.fail('C06:refused-no-message:' + label, 'no message on stderr')
            removed, added, changed = scen.delta(before, after)
            if removed or added or changed:
                return rt.fail('C06:refusal-collateral:' + label, 'refused restore changed %r' % (sorted(list(removed) + list(added) + list(changed))[:4],))
            return rt.ok()
        if scen.sub(after, path) != pair_before[0] or pair_after != (None, None) or r['exit'] != 0:
            return rt.fail('C06:plain-restore-failed:' + label, 'exit=%r err=%r; at %s: %r; stdout %r' % (r['exit'], r['err'][-200:], path, scen.sub(after, path), r['out'][-200:]))
        return rt.ok()


def w_put_restore(dk: int, vk: int, occupied: bool, sticky: bool) -> str:
    """
    pre: 0 <= dk < 5 and 0 <= vk < 2
    post: _ == ''
    """
    return _put_restore(rt.sel(dk, 5), rt.sel(vk, 2), rt.selb(occupied), rt.selb(sticky))


ENVX = [None, '0', 'no']


def _case(dest, kind, overwrite, select, layout, envx=0):
    with rt.untraced():
        rt.begin((DEST[dest], K.KINDS[kind], overwrite, SELECT[select], LAYOUTS[layout], ENVX[envx]))
        world, steps, td, path, other, shown = scenario(dest, kind, overwrite, select, layout)
        if envx:
            # whatever undocumented environment variable the command consults: a value like 0 / no must not enable anything
            names = scen.consulted_unknown_env(world, steps[1])
            if not names:
                return rt.ok()
            steps[1] = dict(steps[1], env=dict(steps[1]['env'], **{n: ENVX[envx] for n in names}))
        label = 'dest=%s:entry=%s' % (DEST[dest], K.KINDS[kind]) + (':env-%s=%s' % ('+'.join(names), ENVX[envx]) if envx else '')
        m, res = scen.run_model(world, steps)
        before, r, after = res
        if r['exc']:
            return rt.fail('C06:traceback:%s:%s' % (r['exc'].split(':')[0], label), r['exc'])
        lst = K.restore_listing(r['out'])
        twice = SELECT[select].startswith('same-path-twice')
        if [p for (_, _, p) in lst] != ([other, path, path] if twice else [other, shown]):
            return rt.fail('C06:offered-path-is-not-the-recorded-one:' + label, 'trash-restore lists %r' % (r['out'],))
        if twice and DEST[dest] == 'absent' and not overwrite:
            # the first selected generation is restored, the second one must be refused: the destination exists by then
            first, second = ('x', 'x_1') if SELECT[select].endswith('range') else ('x_1', 'x')
            p1, p2 = scen.sub(before, td + '/files/' + first), scen.sub(before, td + '/files/' + second)
            if scen.sub(after, path) != p1:
                return rt.fail('C06:clobbered:restored-earlier-in-the-same-run:' + label,
                               'two entries with the same original path selected (%s): destination is %r, the first restored one was %r' % (
                                   SELECT[select], scen.sub(after, path), p1))
            if scen.sub(after, td + '/files/' + second) != p2 or scen.sub(after, td + '/info/' + second + '.trashinfo') is None:
                return rt.fail('C06:refused-but-pair-touched:same-path-twice:' + label, 'the refused second generation left the trash')
            if r['exit'] == 0:
                return rt.fail('C06:refused-exit-0:same-path-twice:' + label, 'exit 0 although the second generation had to be refused')
            return rt.ok()
        if twice:
            return rt.ok()
        payload = scen.sub(before, td + '/files/x')
        dst_before = scen.sub(before, path)
        dst_after = scen.sub(after, path)
        pair_present = (scen.sub(after, td + '/files/x') == payload and
                        scen.sub(after, td + '/info/x.trashinfo') == scen.sub(before, td + '/info/x.trashinfo'))
        pair_gone = scen.sub(after, td + '/files/x') is None and scen.sub(after, td + '/info/x.trashinfo') is None
        exists = DEST[dest] != 'absent'
        missing_dir = SELECT[select].startswith('single-path-through-missing-dir-dotdot')
        if missing_dir and not (exists and not overwrite):
            return rt.ok()  # (whether such a spelling can be restored at all is not C06's business)
        if exists and not overwrite:
            if dst_after != dst_before:
                return rt.fail('C06:clobbered:' + label, 'destination %r was %r, now %r (exit %r, stderr %r)' % (
                    path, dst_before, dst_after, r['exit'], r['err'][-200:]))
            if not pair_present:
                return rt.fail('C06:refused-but-pair-touched:' + label, 'trashed entry changed although refused')
            if r['exit'] == 0:
                return rt.fail('C06:refused-exit-0:' + label, 'exit status 0 although restore was refused')
            if r['err'].strip() == '':
                return rt.fail('C06:refused-no-message:' + label, 'no message on stderr')
            # nothing outside the trash may have changed except 'other' when selected before the collision
            removed, added, changed = scen.delta(before, after)
            for p in list(removed) + list(added) + list(changed):
                if scen.is_under(p, other) or p in (td + '/files/other', td + '/info/other.trashinfo'):
                    continue
                if missing_dir and p in added and added[p][0] == 'd':
                    continue  # the missing parent directory may have been created before the refusal
                return rt.fail('C06:refusal-collateral:' + label, 'refused restore changed %r' % (p,))
            return rt.ok()
        if not exists:
            if dst_after != payload or not pair_gone or r['exit'] != 0:
                return rt.fail('C06:plain-restore-failed:' + label, 'exit=%r err=%r dst=%r' % (r['exit'], r['err'][-200:], dst_after))
            return rt.ok()
        # overwrite given and destination exists
        if DEST[dest] in ('dir', 'empty-dir'):
            # the property only promises replacement of NON-directories; for directories we demand
            # conservation: the trashed payload is either still in the trash or complete somewhere
            # under the destination, and the old content is not lost silently with exit 0 ... keep it
            # simple and sound: payload must exist exactly once somewhere
            where = scen.find_equal(after, payload)
            if len(where) != 1:
                return rt.fail('C06:overwrite-dir-lost-payload:' + label, 'payload found at %r after --overwrite onto a directory' % (where,))
            return rt.ok()
        if dst_after != payload:
            return rt.fail('C06:overwrite-did-not-replace:' + label, 'destination is %r, expected the restored entry (exit %r, err %r)' % (
                dst_after, r['exit'], r['err'][-200:]))
        if not pair_gone:
            return rt.fail('C06:overwrite-left-pair:' + label, 'pair still in trash after --overwrite restore')
        return rt.ok()


def w_env(dest: int, kind: int, select: int, envx: int) -> str:
    """
    pre: 0 <= dest < 7 and 0 <= kind < 6 and 0 <= select < 3 and 1 <= envx <= 2
    post: _ == ''
    """
    return _case(rt.sel(dest, 7), rt.sel(kind, 6), False, rt.sel(select, 3), 0, rt.sel(envx, 3))


def w_main(dest: int, kind: int, overwrite: bool, select: int, layout: int) -> str:
    """
    pre: PARTITION is None or dest == PARTITION
    pre: 0 <= dest < 7 and 0 <= kind < 6 and 0 <= select < NSEL and 0 <= layout < 3
    post: _ == ''
    """
    return _case(rt.sel(dest, 7), rt.sel(kind, 6), rt.selb(overwrite), rt.sel(select, NSEL), rt.sel(layout, 3))


def obligations(tier):
    return [CH('W_undocumented_environment_variables_set_to_0_or_no', MOD, 'w_env', timeout=600, engine='W', regime='selector', encodes=K.RESTORE_FUNCS, stubs=K.STUBS + ['os.environ records the names looked up'],
               bounds='every environment variable the run consults beyond the documented ones (discovered by a probe run) set to 0 / no; 7 destination kinds x 6 entry kinds x 3 selections, no --overwrite'),
            CH('W_dest_kind_overwrite_select_layout', MOD, 'w_main', timeout=900, partitions=list(range(7)),
               engine='W', regime='selector', encodes=K.RESTORE_FUNCS, stubs=K.STUBS,
               bounds='7 destination kinds x 6 entry kinds x overwrite x 10 selections (incl. a name with a literal +, a Path through a missing directory and dot-dot - also followed by a dot -, two generations of the same path in one selection, and a Path spelled through a symlinked directory and dot-dot) x 3 layouts'),
            CH('W_put_then_restore_onto_an_occupied_location', MOD, 'w_put_restore', timeout=300, engine='W', regime='selector', encodes=K.PUT_FUNCS + K.RESTORE_FUNCS, stubs=K.STUBS,
               bounds='the entry is trashed by the real trash-put from 5 directories whose names consist of characters of the mount point path x 2 mount points x location occupied again or not x .Trash sticky or absent')]

"""C19 -- a malformed trash entry never prevents the well-formed ones from being handled."""
from vf import rt, scen, world as W
from vf.commands import C
from vf.runner import CH
from harness import common as K

PARTITION = None
MOD = 'harness.c19'
META = {
    'level': 'other',
    'explanation': 'Bounded symbolic checking with CrossHair/z3. K_sort: the real sort_files for every --sort mode over a '
                   'symbolic presence pattern of deletion dates (undated entries mixed with dated ones must not raise). '
                   'W: the real trash-list / trash-restore / trash-rm / trash-empty main() on the PosixModel, run twice on '
                   'the same well-formed trash, with and without a malformed neighbour chosen by symbolic selectors '
                   '(kind of malformation, directory order, trash dir, command and its arguments); oracle: outputs and '
                   'effects restricted to the well-formed entries are identical.',
    'assumptions': ['PosixModel fidelity (./check MODEL)', 'text files are decoded as strict UTF-8 (a UTF-8 locale)'],
}


def k_sort(mode: int, d0: bool, d1: bool, d2: bool, p1: int, p2: int) -> str:
    """
    pre: 0 <= mode < 3 and 0 <= p1 < 2 and 0 <= p2 < 3
    post: _ == ''
    """
    rt.begin()
    import datetime
    from trashcli.restore.sort_method import sort_files
    from trashcli.restore.args import Sort
    from trashcli.restore.trashed_file import TrashedFile
    s = [Sort.ByDate, Sort.ByPath, Sort.DoNot][mode]
    dates = [datetime.datetime(2020, 1, 3) if d0 else None, datetime.datetime(2020, 1, 1) if d1 else None,
             datetime.datetime(2020, 1, 2) if d2 else None]
    # entries may share their original path (the same file trashed several times)
    paths = ['/a/0', ['/a/0', '/a/1'][p1], ['/a/0', '/a/1', '/a/2'][p2]]
    files = [TrashedFile(paths[i], dates[i], 'i%d' % i, 'f%d' % i) for i in range(3)]
    try:
        out = list(sort_files(s, files))
    except Exception as e:
        return rt.fail('C19:sort-raises:%s:%s' % (['date', 'path', 'none'][mode], type(e).__name__),
                       'sort_files(%s) with dates present=%r raised %s: %s' % (s, (d0, d1, d2), type(e).__name__, e))
    if sorted(f.info_file for f in out) != ['i0', 'i1', 'i2']:
        return rt.fail('C19:sort-loses-entries', repr(out))
    return rt.ok()


MAL = ['none', 'non-trashinfo-file', 'empty-info', 'truncated', 'binary', 'non-utf8', 'no-path', 'no-date', 'invalid-date',
       'info-without-payload', 'payload-without-info', 'subdir-in-info', 'info-is-dir', 'no-header', 'crlf', 'dangling-info-link',
       'unreadable-dir-entry', 'no-date-same-path', 'invalid-date-same-path', 'date-with-utc-offset', 'date-with-Z', 'date-with-fraction',
       'editor-backup-of-a-good-info', 'stale-copy-of-a-good-info', 'temporary-file-with-a-good-stem',
       'path-with-truncated-utf8-escape', 'path-with-invalid-utf8-escape',
       'empty-info-named-with-format-characters', 'no-path-named-with-braces',
       'path-key-with-an-empty-value', 'truncated-right-after-the-path-key']
NMAL = len(MAL)
ORDER = ['insertion', 'reverse']
TDS = ['/v/.Trash-1000', '/h/.local/share/Trash', '/v/.Trash/1000']
CMDS = ['list', 'restore-date', 'restore-path', 'restore-none', 'rm', 'empty-days', 'empty', 'rm-abs', 'list-size', 'list-files']
NCMD = len(CMDS)


def mal_nodes(mk, td):
    k = MAL[mk]
    i, f = td + '/info/', td + '/files/'
    if k == 'none':
        return []
    if k == 'non-trashinfo-file':
        return [W.f(i + 'README.txt', 'hello', 0o644, 4000)]
    if k == 'empty-info':
        return [W.f(i + 'm.trashinfo', '', 0o600, 4000), W.f(f + 'm', 'M', 0o644, 4001)]
    if k == 'truncated':
        return [W.f(i + 'm.trashinfo', '[Trash Info]\nPa', 0o600, 4000), W.f(f + 'm', 'M', 0o644, 4001)]
    if k == 'binary':
        return [W.f(i + 'm.trashinfo', '\x00\x01\x02\x7f\x1b[2J', 0o600, 4000), W.f(f + 'm', 'M', 0o644, 4001)]
    if k == 'non-utf8':
        return [W.f(i + 'm.trashinfo', b'[Trash Info]\nPath=w/\xff\xfe\nDeletionDate=2020-01-01T00:00:00\n', 0o600, 4000),
                W.f(f + 'm', 'M', 0o644, 4001)]
    if k == 'no-path':
        return [W.f(i + 'm.trashinfo', '[Trash Info]\nDeletionDate=2020-01-01T00:00:00\n', 0o600, 4000), W.f(f + 'm', 'M', 0o644, 4001)]
    if k == 'no-date':
        return [W.f(i + 'm.trashinfo', '[Trash Info]\nPath=w/m\n', 0o600, 4000), W.f(f + 'm', 'M', 0o644, 4001)]
    if k == 'invalid-date':
        return [W.f(i + 'm.trashinfo', '[Trash Info]\nPath=w/m\nDeletionDate=tomorrow\n', 0o600, 4000), W.f(f + 'm', 'M', 0o644, 4001)]
    if k == 'info-without-payload':
        return [W.f(i + 'm.trashinfo', K.info_text('w/m', '2020-01-01T00:00:00'), 0o600, 4000)]
    if k == 'payload-without-info':
        return [W.f(f + 'm', 'M', 0o644, 4001)]
    if k == 'subdir-in-info':
        return [W.d(i + 'sub'), W.f(i + 'sub/x.trashinfo', K.info_text('w/x'), 0o600, 4000)]
    if k == 'info-is-dir':
        return [W.d(i + 'm.trashinfo'), W.f(f + 'm', 'M', 0o644, 4001)]
    if k == 'no-header':
        return [W.f(i + 'm.trashinfo', 'Path=w/m\nDeletionDate=2020-01-01T00:00:00\n', 0o600, 4000), W.f(f + 'm', 'M', 0o644, 4001)]
    if k == 'crlf':
        return [W.f(i + 'm.trashinfo', '[Trash Info]\r\nPath=w/m\r\nDeletionDate=2020-01-01T00:00:00\r\n', 0o600, 4000),
                W.f(f + 'm', 'M', 0o644, 4001)]
    if k == 'dangling-info-link':
        return [W.l(i + 'm.trashinfo', '/nowhere', 4000), W.f(f + 'm', 'M', 0o644, 4001)]
    if k in ('no-date-same-path', 'invalid-date-same-path'):
        base_rel = 'h/w' if td.startswith('/h') else 'w'
        pv = ('/' + base_rel + '/aa') if td.startswith('/h') else (base_rel + '/aa')
        extra = '' if k.startswith('no-date') else 'DeletionDate=tomorrow\n'
        return [W.f(i + 'm.trashinfo', '[Trash Info]\nPath=%s\n%s' % (pv, extra), 0o600, 4000), W.f(f + 'm', 'M', 0o644, 4001)]
    if k in ('date-with-utc-offset', 'date-with-Z', 'date-with-fraction'):
        suffix = {'date-with-utc-offset': '+02:00', 'date-with-Z': 'Z', 'date-with-fraction': '.250'}[k]
        return [W.f(i + 'm.trashinfo', '[Trash Info]\nPath=w/m\nDeletionDate=2019-03-01T12:00:00%s\n' % suffix, 0o600, 4000), W.f(f + 'm', 'M', 0o644, 4001)]
    # files in info/ that are not .trashinfo files but share the stem of the well-formed entry 'aa' (kept by DAYS)
    if k == 'editor-backup-of-a-good-info':
        return [W.f(i + 'aa.trashinfo~', K.info_text('w/old-aa', '2000-01-01T00:00:00'), 0o600, 4000)]
    if k == 'stale-copy-of-a-good-info':
        return [W.f(i + 'aa.bak', K.info_text('w/old-aa', '2000-01-01T00:00:00'), 0o600, 4000)]
    if k == 'temporary-file-with-a-good-stem':
        return [W.f(i + 'aa.tmp', '', 0o600, 4000), W.f(i + 'zz.trashinfo.swp', 'x', 0o600, 4002)]
    if k == 'path-with-truncated-utf8-escape':  # a readable ASCII file whose escapes do not decode to UTF-8
        return [W.f(i + 'm.trashinfo', '[Trash Info]\nPath=w/caf%C3\nDeletionDate=2020-01-01T00:00:00\n', 0o600, 4000), W.f(f + 'm', 'M', 0o644, 4001)]
    if k == 'path-with-invalid-utf8-escape':
        return [W.f(i + 'm.trashinfo', '[Trash Info]\nPath=w/m%FF%FE\nDeletionDate=2020-01-01T00:00:00\n', 0o600, 4000), W.f(f + 'm', 'M', 0o644, 4001)]
    if k == 'empty-info-named-with-format-characters':  # (the NAME of the malformed file ends up in diagnostics)
        return [W.f(i + 'My%20Notes 100%.trashinfo', '', 0o600, 4000), W.f(f + 'My%20Notes 100%', 'M', 0o644, 4001)]
    if k == 'no-path-named-with-braces':
        return [W.f(i + 'm{0}{x}%s.trashinfo', '[Trash Info]\nDeletionDate=2020-01-01T00:00:00\n', 0o600, 4000), W.f(f + 'm{0}{x}%s', 'M', 0o644, 4001)]
    if k == 'path-key-with-an-empty-value':
        return [W.f(i + 'm.trashinfo', '[Trash Info]\nPath=\nDeletionDate=2020-01-01T00:00:00\n', 0o600, 4000), W.f(f + 'm', 'M', 0o644, 4001)]
    if k == 'truncated-right-after-the-path-key':  # (what a write cut short leaves)
        return [W.f(i + 'm.trashinfo', '[Trash Info]\nPath=', 0o600, 4000), W.f(f + 'm', 'M', 0o644, 4001)]
    if k == 'unreadable-dir-entry':
        return [W.l(i + 'loop.trashinfo', 'loop.trashinfo', 4000)]
    raise ValueError(k)


# the malformed neighbour's own identity, to restrict outputs/effects to the well-formed ones
MAL_MARKS = ('My%20Notes', 'm{0}{x}%s', 'w/caf', 'w/m' + chr(0xfffd), 'aa.trashinfo~', 'aa.bak', 'aa.tmp', 'zz.trashinfo.swp', 'm.trashinfo', '/files/m', 'w/m', 'README.txt', '/info/sub', 'loop.trashinfo', '/m\n', '/m ', "/m'")


def good_nodes(td):
    pv = (lambda p: p) if td.startswith('/h') else (lambda p: p[3:])
    base = '/h/w' if td.startswith('/h') else '/v/w'
    n = []
    n += K.trashed(td, 'aa', pv(base + '/aa'), '2020-01-03T00:00:00', 'file', 2000)
    n += K.trashed(td, 'zz', pv(base + '/zz'), '2020-01-01T00:00:00', 'dir', 2020)
    return n, base


def run_one(mk, order, tdi, cmd, with_mal):
    td = TDS[tdi]
    good, base = good_nodes(td)
    nodes = [W.d('/h'), W.d('/v/.Trash', 0o1777), W.d(base), W.f('/v/keep', 'KEEP', 0o644, 800)]
    mal = mal_nodes(mk, td) if with_mal else []
    # directory order: the malformed entry is created before or after the good ones
    skeleton = [W.d(td, 0o700), W.d(td + '/files', 0o700), W.d(td + '/info', 0o700)]
    nodes += skeleton + (mal + good if ORDER[order] == 'insertion' else good + mal)
    world = W.W(mounts=K.MOUNTS, cwd=base, nodes=nodes)
    c = CMDS[cmd]
    e = scen.env()
    if c == 'list':
        step = C('list', [], e, cwd=base)
    elif c == 'list-size':
        step = C('list', ['--size'], e, cwd=base)
    elif c == 'list-files':
        step = C('list', ['--files'], e, cwd=base)
    elif c.startswith('restore'):
        # phase 1: listing only; phase 2 (below) picks the index of the well-formed directory entry by its path
        probe = W.build_model(world)
        _, pr = scen.run_model(None, [C('restore', ['--sort', c.split('-')[1], base], e, stdin=[''], cwd='/h')], model=probe)
        idx = [i for (i, d, p) in K.restore_listing(pr[0]['out']) if p == base + '/zz']
        step = C('restore', ['--sort', c.split('-')[1], base], e, stdin=[str(idx[0]) if idx else 'none-offered'], cwd='/h')
        if pr[0]['exc']:
            step = C('restore', ['--sort', c.split('-')[1], base], e, stdin=['0'], cwd='/h')
    elif c == 'rm':
        step = C('rm', ['aa'], e, cwd=base)
    elif c == 'rm-abs':
        step = C('rm', [base + '/z*'], e, cwd=base)
    elif c == 'empty-days':
        step = C('empty', ['2'], e, now='2020-01-04T12:00:00', cwd=base)
    else:
        step = C('empty', [], e, cwd=base)
    m, res = scen.run_model(world, [{'snap': '/'}, step, {'snap': '/'}])
    return td, base, res


def restrict_lines(text):
    # well-formed entries are always dated: an undated line can only be about the malformed neighbour
    # (an empty Path value designates the top directory itself: such a line is about the malformed neighbour)
    return sorted(ln for ln in text.split('\n') if ln and not any(mk in ln + '\n' for mk in MAL_MARKS)
                  and 'What file to restore' not in ln and not ln.startswith('????-??-??')
                  and not ln.endswith((' /v/', ' /', ' /v/ -> /v/.Trash-1000/files/m', ' /v/ -> /v/.Trash/1000/files/m', ' / -> /h/.local/share/Trash/files/m')))


def good_state(snap, td, base):
    return (scen.sub(snap, td + '/files/aa'), scen.sub(snap, td + '/info/aa.trashinfo'),
            scen.sub(snap, td + '/files/zz'), scen.sub(snap, td + '/info/zz.trashinfo'),
            scen.sub(snap, base + '/aa'), scen.sub(snap, base + '/zz'))


def _case(mk, order, tdi, cmd):
    with rt.untraced():
        rt.begin((MAL[mk], ORDER[order], TDS[tdi], CMDS[cmd]))
        td, base, ref = run_one(mk, order, tdi, cmd, False)
        _, _, got = run_one(mk, order, tdi, cmd, True)
        label = '%s:cmd=%s' % (MAL[mk], CMDS[cmd])
        r0, r1 = ref[1], got[1]
        if r0['exc']:
            return rt.fail('C19:harness-reference-run-crashed:' + CMDS[cmd], r0['exc'])
        if r1['exc']:
            return rt.fail('C19:traceback:%s:%s' % (r1['exc'].split(':')[0], label), 'with neighbour %s: %s' % (MAL[mk], r1['exc']))
        if good_state(got[2], td, base) != good_state(ref[2], td, base):
            return rt.fail('C19:effects-differ:' + label, 'well-formed entries end in a different state next to a %s neighbour; stderr %r' % (
                MAL[mk], r1['err'][-300:]))
        c = CMDS[cmd]
        if c.startswith('restore'):
            # listing indexes shift if the neighbour is (legitimately) offered: compare the set of offered good paths
            l0 = sorted((d, p) for (_, d, p) in K.restore_listing(r0['out']))
            l1 = sorted((d, p) for (_, d, p) in K.restore_listing(r1['out']) if not p.rstrip('\r').endswith('/m') and d != 'None' and not any(mk in p for mk in ('w/caf', 'w/m' + chr(0xfffd))))
            if scen.sub(got[2], base + '/zz') is None:
                return rt.fail('C19:well-formed-entry-not-restored:' + label, 'stderr %r' % (r1['err'][-300:],))
            if l0 != l1:
                return rt.fail('C19:restore-offers-differ:' + label, '%r vs %r' % (l0, l1))
        elif c in ('list-size', 'list-files'):
            # (a neighbour recorded under the same path as a good entry prints a line the restriction cannot tell apart:
            #  every line about a well-formed entry must still be there, as many times)
            l1 = restrict_lines(r1['out'])
            for ln in restrict_lines(r0['out']):
                if ln not in l1:
                    return rt.fail('C19:output-differs:' + label, '%r vs %r' % (restrict_lines(r0['out']), restrict_lines(r1['out'])))
                l1.remove(ln)
        elif restrict_lines(r0['out']) != restrict_lines(r1['out']):
            return rt.fail('C19:output-differs:' + label, '%r vs %r' % (restrict_lines(r0['out']), restrict_lines(r1['out'])))
        if (r0['exit'] or 0) == 0 and (r1['exit'] or 0) != 0 and not c.startswith('restore'):
            return rt.fail('C19:exit-status-worse:' + label, 'exit %r with the neighbour, %r without; stderr %r' % (r1['exit'], r0['exit'], r1['err'][-200:]))
        return rt.ok()


def w_main(mk: int, order: int, tdi: int, cmd: int) -> str:
    """
    pre: PARTITION is None or cmd == PARTITION
    pre: 0 <= mk < NMAL and 0 <= order < 2 and 0 <= tdi < 3 and 0 <= cmd < NCMD
    post: _ == ''
    """
    return _case(rt.sel(mk, NMAL), rt.sel(order, 2), rt.sel(tdi, 3), rt.sel(cmd, NCMD))


def obligations(tier):
    from harness import kpair
    return kpair.obligations(tier) + [
        CH('K_sort_with_undated_entries', MOD, 'k_sort', timeout=120, engine='K', regime='traced',
           encodes=['trashcli.restore.sort_method.sort_files', 'sorter_for'], bounds='3 entries, symbolic presence of each date, symbolic sharing of original paths, 3 sort modes'),
        CH('W_neighbour_x_order_x_dir_x_cmd', MOD, 'w_main', timeout=900, partitions=list(range(NCMD)), engine='W', regime='selector',
           encodes=K.LIST_FUNCS + K.RESTORE_FUNCS + K.RM_FUNCS + K.EMPTY_FUNCS, stubs=K.STUBS,
           bounds='31 neighbours x 2 directory orders x 3 trash dirs x 10 command/argument combinations (incl. trash-list --size / --files)'),
    ]

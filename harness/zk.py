"""Z kernels: small string functions of trash-cli decided by z3 over a translation of their current source
(vf/zenc/pysym.py).  Unlike the CrossHair kernels the strings are bounded only by LEN (32 code points).

(Tried and NOT registered: path_of_backup_copy through pysym's posixpath models -- basename/dirname as word equations
with regular constraints.  z3 5.1, z3 4.8.12 and cvc5 1.0.3 all time out (120 s) on the unsat proof even for
strings of <= 4 code points, so that function stays with the CrossHair kernels of harness/kpair.py.)
"""
import z3

from vf.runner import ZQ
from vf.zenc import pysym

LEN = 32
MOD = 'harness.zk'


def _unescape(s):
    """z3 prints non-printable / non-ASCII code points as \\u{hex}"""
    import re
    return re.sub(r'\\u\{([0-9a-fA-F]+)\}', lambda m: chr(int(m.group(1), 16)), s)


def _val(model, var):
    return _unescape(pysym.model_str(model, var))


def _bounded(*vars_):
    return [z3.Length(v) <= LEN for v in vars_]


# --------------------------------------------------------------- C07: which directory is the home trash
def z_home():
    """home_trash_dir_path_from_env(environ) for EVERY environment: XDG_DATA_HOME / HOME each unset or any string"""
    px, ph = z3.Bool('xdg_set'), z3.Bool('home_set')
    x, h = z3.String('XDG_DATA_HOME'), z3.String('HOME')
    env = pysym.D({'XDG_DATA_HOME': (px, pysym.S(x)), 'HOME': (ph, pysym.S(h))})
    try:
        ex = pysym.Executor('trashcli.lib.trash_dirs')
        leaves = ex.run('home_trash_dir_path_from_env', [env], pc=_bounded(x, h))
    except pysym.Unsupported as e:
        return {'verdict': 'unknown', 'message': 'outside the translatable subset: %s' % e}
    use_x = z3.And(px, z3.Length(x) > 0)
    want_x = z3.Concat(x, z3.StringVal('/Trash'))
    want_h = z3.Concat(h, z3.StringVal('/.local/share/Trash'))

    def violated(out, calls):
        if isinstance(out, pysym.Raised) or not isinstance(out, list) or len(out) > 1:
            return True
        if len(out) == 0:
            return z3.Or(use_x, ph)
        got = pysym.zs(out[0])
        return z3.Not(z3.Or(z3.And(use_x, got == want_x), z3.And(z3.Not(use_x), ph, got == want_h)))
    verdict, model, st = pysym.decide(leaves, violated)
    out = {'verdict': verdict, 'queries': st['queries'], 'solver_s': st['solver_s'],
           'samples': ['%d paths through home_trash_dir_path_from_env' % st['leaves']], 'extra': {'encoded': ex.encoded, 'len_bound': LEN}}
    if verdict == 'sat':
        env = {}
        if z3.is_true(model.eval(px, model_completion=True)):
            env['XDG_DATA_HOME'] = _val(model, x)
        if z3.is_true(model.eval(ph, model_completion=True)):
            env['HOME'] = _val(model, h)
        out['model'] = {'environ': env}
        out['message'] = 'environ %r' % (env,)
    elif verdict != 'unsat':
        out['message'] = st.get('reason', '')
    return out


def z_home_replay(model):
    from trashcli.lib.trash_dirs import home_trash_dir_path_from_env
    envs = [model['environ']] if model and 'environ' in model else []
    envs += [{}, {'HOME': '/h'}, {'XDG_DATA_HOME': '', 'HOME': '/h'}, {'XDG_DATA_HOME': '/x'}, {'XDG_DATA_HOME': ''}, {'XDG_DATA_HOME': '/x', 'HOME': '/h'}]
    for env in envs:
        got = home_trash_dir_path_from_env(dict(env))
        if env.get('XDG_DATA_HOME'):
            want = [env['XDG_DATA_HOME'] + '/Trash']
        elif 'HOME' in env:
            want = [env['HOME'] + '/.local/share/Trash']
        else:
            want = []
        if got != want:
            return 'C07:home-trash-path:%s :: environ %r: home trash %r, the spec says %r' % (
                'xdg-empty' if env.get('XDG_DATA_HOME') == '' else 'other', env, got, want)
    return ''


def home_obligations(tier):
    return [ZQ('Z_home_trash_for_every_environ', MOD, 'z_home', timeout=300, encodes=['trashcli.lib.trash_dirs.home_trash_dir_path_from_env'],
               bounds='XDG_DATA_HOME / HOME each unset or ANY string of <= %d code points; pysym translation of the current source' % LEN)]

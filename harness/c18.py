"""C18 -- trash-put acts on the named entry itself and never follows a final symlink."""
from vf import rt, scen, world as W
from vf.commands import C
from vf.runner import CH
from harness import common as K

PARTITION = None
MOD = 'harness.c18'
META = {
    'level': 'other',
    'explanation': 'Bounded symbolic checking with CrossHair/z3. K_location: the real OriginalLocation.for_file over ALL path '
                   'strings up to the bound with a recording file system: only the parent directory of the normalised path '
                   'is handed to realpath and the final component is kept verbatim. W: the real trash-put then trash-restore '
                   'main()s on the PosixModel over symbolic selectors (kind and target of the link, relative / absolute, on '
                   'another volume, link to a link, 0-3 trailing slashes, reached through another link).',
    'assumptions': ['PosixModel fidelity incl. Linux rename(2) on "link/" (./check MODEL)'],
}


class _RecFs(object):
    def __init__(self):
        self.calls = []

    def realpath(self, p):
        self.calls.append(p)
        return '/R' + ('' if p.startswith('/') else '/') + p

    def parent_realpath2(self, path):
        import posixpath
        return self.realpath(posixpath.dirname(path))


class _RecPath(object):
    """posixpath with normpath cut out: it records its argument and answers with a free symbolic string"""
    sep = '/'

    def __init__(self, norm):
        self.norm, self.calls = norm, []

    def normpath(self, p):
        self.calls.append(p)
        return self.norm

    @staticmethod
    def basename(p):
        import posixpath
        return posixpath.basename(p)

    @staticmethod
    def dirname(p):
        import posixpath
        return posixpath.dirname(p)

    @staticmethod
    def join(a, *rest):
        import posixpath
        return posixpath.join(a, *rest)


class _RecOs(object):
    sep = '/'

    def __init__(self, norm):
        self.path = _RecPath(norm)


def k_location(path: str, norm: str) -> str:
    """
    pre: 1 <= len(path) <= 3 and 1 <= len(norm) <= (PARTITION or 6)
    pre: chr(0) not in path and chr(0) not in norm
    post: _ == ''
    """
    rt.begin()
    import posixpath
    import trashcli.put.original_location as ol
    from trashcli.put.core.path_maker_type import PathMakerType
    fs = _RecFs()
    saved = ol.os
    fake = _RecOs(norm)
    ol.os = fake
    try:
        got = ol.OriginalLocation(fs).for_file(path, PathMakerType.AbsolutePaths, '/')
    finally:
        ol.os = saved
    if len(fake.path.calls) == 0:
        return rt.not_applicable('normpath-seam-not-used', 'for_file(%r) did not call original_location.os.path.normpath' % (path,))
    if len(fake.path.calls) != 1 or not (path == fake.path.calls[0]):
        return rt.fail('C18:argument-not-normalised-once', 'for_file(%r): normpath called with %r' % (path, fake.path.calls))
    # norm stands for normpath(path): an arbitrary string here, so the claim covers every normal form
    parent, base = posixpath.dirname(norm), posixpath.basename(norm)
    if len(fs.calls) != 1 or not (parent == fs.calls[0]):
        return rt.fail('C18:realpath-of-wrong-thing', 'for_file(%r) [normal form %r] resolved %r, only the parent %r may be resolved' % (path, norm, fs.calls, parent))
    want = posixpath.join('/R' + ('' if parent.startswith('/') else '/') + parent, base)
    if not (want == got):
        return rt.fail('C18:location-not-parent-plus-name', 'for_file(%r) [normal form %r] = %r' % (path, norm, got))
    return rt.ok()


LINKS = ['to-file-abs', 'to-file-rel', 'to-dir-abs', 'to-dir-rel', 'dangling', 'to-link', 'to-other-volume-dir', 'to-other-volume-file',
         'to-self-parent', 'to-trash-dir']
SLASHES = ['', '/', '//', '///']
VIA = ['direct', 'through-linked-parent', 'absolute', 'dot-prefix']
LAYOUT = ['alt', 'top', 'home', 'fallback-cross-volume']
OPTS = [[], ['-f'], ['-v'], ['-i'], ['-rf']]  # -i is answered with y


def _case(lk, sl, via, layout, opt=0):
    with rt.untraced():
        rt.begin((LINKS[lk], SLASHES[sl], VIA[via], LAYOUT[layout], OPTS[opt]))
        lay = LAYOUT[layout]
        xdev = lay == 'fallback-cross-volume'
        base = '/h/w' if lay == 'home' else '/v/w'
        other = '/v/o' if lay == 'home' else '/h/o'
        d = base + '/d'
        nodes = [W.d('/h'), W.d(d), W.f(base + '/tf', 'TARGET-FILE', 0o644, 900), W.d(base + '/td'), W.f(base + '/td/in', 'IN', 0o644, 901),
                 W.f(other + '/of', 'OTHER-FILE', 0o644, 902), W.f(other + '/od/in', 'OIN', 0o644, 903), W.l(base + '/lp', 'd', 904),
                 W.l(d + '/l2', '../td', 905)]
        if lay == 'top':
            nodes.append(W.d('/v/.Trash', 0o1777))
        if xdev:  # no usable trash dir on /v: the home trash on another volume is used, by copy + delete
            nodes += [W.f('/v/.Trash', 'x', 0o644, 906), W.f('/v/.Trash-1000', 'x', 0o644, 907)]
        k = LINKS[lk]
        tgt = {'to-file-abs': base + '/tf', 'to-file-rel': '../tf', 'to-dir-abs': base + '/td', 'to-dir-rel': '../td', 'dangling': 'nowhere',
               'to-link': 'l2', 'to-other-volume-dir': other + '/od', 'to-other-volume-file': other + '/of', 'to-self-parent': '.',
               'to-trash-dir': ('/h/.local/share/Trash' if lay in ('home', 'fallback-cross-volume') else '/v/.Trash-1000')}[k]
        nodes.append(W.l(d + '/lnk', tgt, 1000))
        if k == 'to-trash-dir':
            nodes += [W.d(tgt, 0o700), W.d(tgt + '/files', 0o700), W.d(tgt + '/info', 0o700)]
        world = W.W(mounts=K.MOUNTS, cwd=d, nodes=nodes)
        v = VIA[via]
        arg = {'direct': 'lnk', 'through-linked-parent': '../lp/lnk', 'absolute': d + '/lnk', 'dot-prefix': './lnk'}[v] + SLASHES[sl]
        e = scen.env({'TRASH_ENABLE_HOME_FALLBACK': '1'} if xdev else None)
        label = '%s:slashes=%d:%s' % (k, sl, v) + (':opt=' + OPTS[opt][0] if opt else '')
        m = W.build_model(world)
        before = m.snap('/')
        _, r = scen.run_model(None, [C('put', OPTS[opt] + (['--home-fallback'] if xdev else []) + ['--', arg], e, cwd=d, stdin=['y'])], model=m)
        r = r[0]
        after = m.snap('/')
        points_to_dir = k in ('to-dir-abs', 'to-dir-rel', 'to-link', 'to-other-volume-dir', 'to-self-parent', 'to-trash-dir')
        if SLASHES[sl] and not points_to_dir:
            # "lnk/" does not designate anything when lnk is not a directory: must be refused, nothing touched
            if after != before and not all(v[0] == 'd' for v in scen.delta(before, after)[1].values()):
                return rt.fail('C18:nondir-with-slash-touched:' + label, repr(scen.delta(before, after))[:300])
            if scen.delta(before, after)[0] or scen.delta(before, after)[2]:
                return rt.fail('C18:nondir-with-slash-touched:' + label, repr(scen.delta(before, after))[:300])
            return rt.ok()
        if r['exc'] or r['exit'] != 0:
            return rt.fail('C18:put-failed:' + label, repr(r)[:400])
        link_snap = scen.sub(before, d + '/lnk')
        # targets untouched: everything that existed before and is not the link itself is unchanged
        removed, added, changed = scen.delta(before, after)
        if scen.sub(after, d + '/lnk') is not None:
            return rt.fail('C18:exit-0-but-link-not-trashed:' + label, 'the link is still at %s; stderr %r' % (d + '/lnk', r['err'][-200:]))
        if changed or sorted(removed) != [d + '/lnk']:
            return rt.fail('C18:target-or-other-touched:' + label, 'removed=%r changed=%r' % (sorted(removed)[:5], sorted(changed)[:5]))
        pays = [p for p, s in added.items() if '/files/' in p and s[0] == 'l']
        if len(pays) != 1 or [p for p, s in added.items() if '/files/' in p and s[0] != 'l' and p.rsplit('/files/', 1)[1] != '']:
            return rt.fail('C18:payload-is-not-the-link:' + label, 'added under files/: %r' % ({p: s[0] for p, s in added.items() if '/files/' in p},))
        pay = added[pays[0]]
        if pay[1] != link_snap[1]:
            return rt.fail('C18:link-target-text-changed:' + label, '%r -> %r' % (link_snap[1], pay[1]))
        if pay != link_snap and not xdev:  # (across devices shutil.move re-creates the link: known finding of C01)
            return rt.fail('C18:link-mtime-lost:' + label, 'link re-created instead of renamed (%r -> %r): silent cross-device move?' % (link_snap, pay))
        td = pays[0].rsplit('/files/', 1)[0]
        info = scen.sub(after, td + '/info/' + pays[0].rsplit('/', 1)[1] + '.trashinfo')
        ok, pth, _ = scen.spec_parse_info(info[2])
        full = pth if pth.startswith('/') else ('/v/' + pth)
        if xdev and pth != d + '/lnk':
            return rt.fail('C18:recorded-location:' + label, 'Path decodes to %r in the home trash' % (pth,))
        if not xdev and full != d + '/lnk':
            return rt.fail('C18:recorded-location:' + label, 'Path decodes to %r, the link lives at %r' % (full, d + '/lnk'))
        want_td = {'alt': '/v/.Trash-1000', 'top': '/v/.Trash/1000', 'home': '/h/.local/share/Trash', 'fallback-cross-volume': '/h/.local/share/Trash'}[lay]
        if td != want_td:
            return rt.fail('C18:wrong-trash-dir:' + label, 'link on %s went to %s (expected %s)' % (base, td, want_td))
        # restore recreates the same link
        _, rr = scen.run_model(None, [C('restore', [d], e, stdin=['0'], cwd='/')], model=m)
        back = scen.sub(m.snap('/'), d + '/lnk')
        if rr[0]['exit'] != 0 or (back != link_snap and not (xdev and back is not None and back[:2] == link_snap[:2])):
            return rt.fail('C18:restore-does-not-recreate-link:' + label, repr(rr[0])[:300])
        return rt.ok()


def _together(which, order, layout):
    """one invocation naming a link AND what it points to (or two links to one target): each name is an entry of
    its own, the link must be trashed as a link whatever else is on the command line"""
    with rt.untraced():
        rt.begin(('together', which, order, LAYOUT[layout]))
        base = '/h/w' if LAYOUT[layout] == 'home' else '/v/w'
        d = base + '/d'
        nodes = [W.d('/h'), W.d(d), W.f(d + '/tf', 'TARGET-FILE', 0o644, 900), W.d(d + '/td'), W.f(d + '/td/in', 'IN', 0o644, 901),
                 W.l(d + '/lf', 'tf', 1000), W.l(d + '/ld', d + '/td', 1001), W.l(d + '/l2', 'lf', 1002), W.l(d + '/lf2', d + '/tf', 1003)]
        if LAYOUT[layout] == 'top':
            nodes.append(W.d('/v/.Trash', 0o1777))
        pair = [('tf', 'lf'), ('td', 'ld'), ('lf', 'l2'), ('lf', 'lf2'), ('td/', 'ld')][which]
        args = list(pair) if order == 0 else [pair[1], pair[0]]
        m, res = scen.run_model(W.W(mounts=K.MOUNTS, cwd=d, nodes=nodes), [{'snap': '/'}, C('put', ['--'] + args, scen.env(), cwd=d), {'snap': '/'}])
        before, r, after = res
        label = 'together:%s+%s' % tuple(args)
        if r['exc'] or r['exit'] != 0:
            return rt.fail('C18:put-failed:' + label, repr(r)[:300])
        for a in args:
            p = d + '/' + a.rstrip('/')
            if scen.sub(after, p) is not None:
                return rt.fail('C18:exit-0-but-link-not-trashed:' + label, '%s is still in place (exit 0, stderr %r)' % (p, r['err'][-200:]))
            orig = scen.sub(before, p)
            if not scen.find_equal(after, orig):
                return rt.fail('C18:payload-is-not-the-link:' + label, '%s (%s) is nowhere in the trash as itself' % (p, orig[0]))
        return rt.ok()


RL_NEW = ['link-to-another-file', 'link-to-a-directory', 'dangling-link', 'nothing']
RL_SPELL = [(['/v/d/ln'], '/'), (['ln'], '/v/d'), (['./ln'], '/v/d')]


def _restore_named(newk, spell, kind):
    """the reader side of 'the link itself': a trashed symbolic link is brought back with `trash-restore --overwrite PATH`
    where PATH names the location of the link - at which ANOTHER link exists meanwhile.  The path names the link, not
    what the new link points to: the trashed link is offered and put back in place of the new one"""
    with rt.untraced():
        argv, cwd = RL_SPELL[spell]
        lk = ['link-file', 'link-dir', 'dangling'][kind]
        rt.begin(('restore-named-link', RL_NEW[newk], argv[0], lk))
        td = '/v/.Trash-1000'
        nodes = [W.d('/h'), W.d('/v/d'), W.d('/v/other'), W.f('/v/other/new-target', 'NEW', 0o644, 700), W.d('/v/other/new-dir'),
                 W.f('/v/other/new-dir/inside', 'INSIDE', 0o644, 701), W.f('/v/keep', 'KEEP', 0o644, 800)] + K.sentinels('/v/out')
        nodes += K.trashed(td, 'ln', 'd/ln', '2020-01-02T00:00:00', lk, 2000)
        nodes += K.trashed(td, 'inside', 'other/new-dir/inside', '2020-01-01T00:00:00', 'file', 2040)  # (something trashed from where the new link points)
        nk = RL_NEW[newk]
        if nk == 'link-to-another-file':
            nodes.append(W.l('/v/d/ln', '/v/other/new-target', 710))
        elif nk == 'link-to-a-directory':
            nodes.append(W.l('/v/d/ln', '../other/new-dir', 711))
        elif nk == 'dangling-link':
            nodes.append(W.l('/v/d/ln', 'nowhere', 712))
        m, res = scen.run_model(W.W(mounts=K.MOUNTS, cwd=cwd, nodes=nodes), [{'snap': '/'}, C('restore', ['--overwrite'] + argv, scen.env(), stdin=['0'], cwd=cwd), {'snap': '/'}])
        before, r, after = res
        label = 'restore-named-link:%s-in-place:%s' % (nk, lk)
        if r['exc']:
            return rt.fail('C18:traceback:%s:%s' % (r['exc'].split(':')[0], label), r['exc'])
        lst = K.restore_listing(r['out'])
        if [p_ for (_, _, p_) in lst] != ['/v/d/ln']:
            return rt.fail('C18:restore-followed-the-named-link:' + label, 'trash-restore --overwrite %s offers %r, expected the link trashed from /v/d/ln; stdout %r' % (argv[0], lst, r['out'][-200:]))
        if nk == 'link-to-a-directory':
            # (what --overwrite does onto a link to a directory is C06's recorded finding: the entry is moved INSIDE the
            #  linked directory; here only the question which entry the PATH designates is asked)
            return rt.ok()
        want = scen.sub(before, td + '/files/ln')
        got = scen.sub(after, '/v/d/ln')
        if got is None or got[0] != 'l' or got[1] != want[1] or scen.sub(after, td + '/files/ln') is not None:
            return rt.fail('C18:link-not-restored-as-link:' + label, 'at /v/d/ln: %r, trashed link was %r; exit %r stderr %r' % (got, want, r['exit'], r['err'][-200:]))
        for keepp in ('/v/other/new-target', '/v/other/new-dir'):
            if scen.sub(after, keepp) != scen.sub(before, keepp):
                return rt.fail('C18:target-touched:' + label, keepp)
        return rt.ok()


def w_restore_named(newk: int, spell: int, kind: int) -> str:
    """
    pre: 0 <= newk < 4 and 0 <= spell < 3 and 0 <= kind < 3
    post: _ == ''
    """
    return _restore_named(rt.sel(newk, 4), rt.sel(spell, 3), rt.sel(kind, 3))


def w_together(which: int, order: int, layout: int) -> str:
    """
    pre: 0 <= which < 5 and 0 <= order < 2 and 0 <= layout < 3
    post: _ == ''
    """
    return _together(rt.sel(which, 5), rt.sel(order, 2), rt.sel(layout, 3))


def w_main(lk: int, sl: int, via: int, layout: int, opt: int) -> str:
    """
    pre: PARTITION is None or layout == PARTITION
    pre: 0 <= lk < 10 and 0 <= sl < 4 and 0 <= via < 4 and 0 <= layout < 4 and 0 <= opt < 5
    post: _ == ''
    """
    return _case(rt.sel(lk, 10), rt.sel(sl, 4), rt.sel(via, 4), rt.sel(layout, 4), rt.sel(opt, 5))


def obligations(tier):
    return [
        CH('K_location_only_parent_resolved', MOD, 'k_location', timeout=400 if tier == 'quick' else 1800, partitions=[5 if tier == 'quick' else 8], engine='K', regime='traced',
           encodes=['OriginalLocation.for_file', 'Fs.parent_realpath2'], stubs=['realpath -> recorder', 'posixpath.normpath -> recorder answering with a free symbolic string'],
           bounds='argument: any str 1<=len<=3; its normal form: ANY str 1<=len<=%d' % (5 if tier == 'quick' else 8)),
        CH('W_restore_names_the_location_of_a_link', MOD, 'w_restore_named', timeout=300, engine='W', regime='selector', encodes=K.RESTORE_FUNCS + ['RestoreArgParser.parse_restore_args'], stubs=K.STUBS,
           bounds='trash-restore --overwrite PATH where PATH is the location of a trashed link (3 kinds) at which another link (to a file, to a directory, dangling) or nothing exists now; 3 spellings of PATH'),
        CH('W_link_named_together_with_its_target', MOD, 'w_together', timeout=300, engine='W', regime='selector', encodes=K.PUT_FUNCS, stubs=K.STUBS,
           bounds='one invocation naming a link and its target (file, directory, another link, a second link to the same file, the directory spelled with a slash) in both orders x 3 layouts'),
        CH('W_link_x_slashes_x_via_x_layout', MOD, 'w_main', timeout=900, partitions=list(range(4)), engine='W', regime='selector',
           encodes=K.PUT_FUNCS + K.RESTORE_FUNCS, stubs=K.STUBS, bounds='10 link kinds x 0-3 trailing slashes x 4 spellings x 4 layouts (incl. cross-volume via the home fallback) x 5 option sets (none, -f, -v, -i answered y, -rf)'),
    ]

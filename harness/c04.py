"""C04 -- a trashed entry is never overwritten: names stay unique, also under concurrency."""
from vf import rt, scen, sched, world as W
from vf.commands import C
from vf.runner import CH
from harness import common as K, kpair

PARTITION = None
NMAX = 3  # puts per sequence; the worker sets 4 for the thorough tier (through the partition tuple)
MOD = 'harness.c04'
META = {
    'level': 'model_checking',
    'explanation': 'Bounded symbolic checking with CrossHair/z3. K_names: create_trashinfo_basename / Suffix / '
                   'path_of_backup_copy over ALL base names up to the bound and symbolic indices: distinct indices give '
                   'distinct names, the info<->payload pairing is injective and stays inside files/. W_seq: sequences of up '
                   'to 4 real trash-put runs of same-named entries (kinds symbolic) into a trash dir with symbolic '
                   'pre-existing orphan payloads / lone infos, incl. the >100 regime with colliding random suffixes. '
                   'W_conc: 2 (thorough: 3) concurrent real trash-put runs of same-named entries interleaved at system-call '
                   'granularity by deterministic replay-stepping; the context-switch points are solver variables; the trash '
                   'directory is absent (first-use race on mkdir) or present. states = distinct (configuration, schedule); '
                   'transitions = process segments executed.',
    'assumptions': ['each system call is atomic and sequentially consistent (NFS non-atomic O_EXCL outside)',
                    'context-bounded: <= 2 preemptions (quick), <= 3 (thorough)', 'PosixModel fidelity'],
}


# ------------------------------------------------------------------------- K
IDX = [0, 1, 2, 9, 10, 11, 99, 100, 101, 129]


def k_names(base: str, i: int, j: int, r: int) -> str:
    """
    pre: PARTITION is None or i == PARTITION
    pre: len(base) <= 3
    pre: '/' not in base
    pre: 0 <= i < 10 and 0 <= j < 10 and i != j
    pre: 0 <= r < 4
    post: _ == ''
    """
    rt.begin()
    from trashcli.put.janitor_tools.info_file_persister import create_trashinfo_basename
    from trashcli.put.suffix import Suffix
    from trashcli.lib.path_of_backup_copy import path_of_backup_copy
    ii, jj, rr = IDX[rt.sel(i, 10)], IDX[rt.sel(j, 10)], [0, 7, 100, 65535][rt.sel(r, 4)]

    class G(object):
        def new_int(self, a, b):
            return rr
    s = Suffix(G())
    a = create_trashinfo_basename(base, s.suffix_for_index(ii), False)
    b = create_trashinfo_basename(base, s.suffix_for_index(jj), False)
    if ii < 100 and jj < 100 and a == b:
        return rt.fail('C04:same-name-for-different-indices', 'base %r: index %d and %d both give %r' % (base, ii, jj, a))
    if not a.endswith('.trashinfo') or not a.startswith(base):
        return rt.fail('C04:info-name-shape', repr(a))
    # (the info <-> payload pairing function itself is C11's kernel obligation)
    return rt.ok()


# ------------------------------------------------------------------- W: sequences
SEQ_KINDS = ['file', 'dir', 'link-dir', 'empty']
PRE = ['none', 'orphan-x', 'lone-info-x', 'orphan-x_1', 'lone-info-x_1', 'orphan-dir-x', 'pair-x', 'info-is-dir-x', 'orphan-link-x',
       'long-names', 'long-names-orphan-file', 'long-names-orphan-dir', 'long-names-lone-info']
LONG = 'L' * 250  # + suffix + '.trashinfo' exceeds NAME_MAX: the info name gets truncated
LONG_T1 = 'L' * 238 + '_1'  # payload name paired with the first truncated info name (250 - len('_1.trashinfo') = 238)


def pre_nodes(p, td):
    k = PRE[p]
    base = [W.d(td, 0o700), W.d(td + '/files', 0o700), W.d(td + '/info', 0o700)]
    if k == 'none':
        return []
    if k == 'orphan-x':
        return base + [W.f(td + '/files/x', 'ORPHAN', 0o644, 3000)]
    if k == 'orphan-dir-x':
        return base + [W.d(td + '/files/x'), W.f(td + '/files/x/in', 'ORPHAN-IN', 0o644, 3000)]
    if k == 'orphan-link-x':
        return base + [W.l(td + '/files/x', '/nowhere', 3000)]
    if k == 'lone-info-x':
        return base + [W.f(td + '/info/x.trashinfo', K.info_text('d9/x', '2019-01-01T00:00:00'), 0o600, 3000)]
    if k == 'orphan-x_1':
        return base + [W.f(td + '/files/x_1', 'ORPHAN1', 0o644, 3000)]
    if k == 'lone-info-x_1':
        return base + [W.f(td + '/info/x_1.trashinfo', K.info_text('d9/x', '2019-01-01T00:00:00'), 0o600, 3000)]
    if k == 'pair-x':
        return K.trashed(td, 'x', 'd9/x', '2019-01-01T00:00:00', 'dir', 3000)
    if k == 'info-is-dir-x':
        return base + [W.d(td + '/info/x.trashinfo')]
    if k == 'long-names':
        return []
    if k == 'long-names-orphan-file':
        return base + [W.f(td + '/files/' + LONG_T1, 'ORPHAN-LONG', 0o644, 3000)]
    if k == 'long-names-orphan-dir':
        return base + [W.d(td + '/files/' + LONG_T1), W.f(td + '/files/' + LONG_T1 + '/keep', 'ORPHAN-IN', 0o644, 3000)]
    if k == 'long-names-lone-info':
        return base + [W.f(td + '/info/' + LONG_T1 + '.trashinfo', K.info_text('d9/' + LONG, '2019-01-01T00:00:00'), 0o600, 3000)]
    raise ValueError(k)


def _seq(n, k0, k1, k2, k3, pre, many):
    with rt.untraced():
        kinds = [k0, k1, k2, k3][:n]
        rt.begin(('seq', [SEQ_KINDS[k] for k in kinds], PRE[pre], many))
        td = '/v/.Trash-1000'
        nodes = [W.d('/h'), W.f('/v/keep', 'KEEP', 0o644, 800)] + K.sentinels('/v/out') + pre_nodes(pre, td)
        if many:
            # indices 0..99 already taken (payload side): suffixes become random
            nodes += [W.d(td + '/info', 0o700)]
            nodes.append(W.f(td + '/files/x', 'T0', 0o644, 3100))
            for i in range(1, 100):
                nodes.append(W.f(td + '/files/x_%d' % i, 'T%d' % i, 0o644, 3100 + i))
        nm = LONG if PRE[pre].startswith('long-names') else 'x'
        for j, kd in enumerate(kinds):
            nodes += K.entry_nodes(SEQ_KINDS[kd], '/v/d%d/%s' % (j, nm), 1000 + 20 * j)
        m = W.build_model(W.W(mounts=K.MOUNTS, cwd='/v', nodes=nodes))
        label = 'seq:%s:%s' % (PRE[pre], 'many' if many else 'few')
        e = scen.env()
        for j, kd in enumerate(kinds):
            before = m.snap('/')
            payload = scen.sub(before, '/v/d%d/%s' % (j, nm))
            # random suffixes collide on purpose: 107, 107, 107, 108, 108, 109 ...
            _, r = scen.run_model(None, [C('put', [nm], e, cwd='/v/d%d' % j, rand=[107, 107, 107, 108, 108, 109, 109, 110, 111, 112], now='2020-01-0%dT00:00:00' % (j + 1))], model=m)
            after = m.snap('/')
            if r[0]['exc'] or r[0]['exit'] != 0:
                return rt.fail('C04:put-failed:' + label, 'put #%d: %r' % (j, r[0]))
            removed, added, changed = scen.delta(before, after)
            if changed:
                return rt.fail('C04:existing-node-changed:' + label, 'put #%d changed %r' % (j, sorted(changed)))
            for p in removed:
                if not scen.is_under(p, '/v/d%d/%s' % (j, nm)):
                    return rt.fail('C04:existing-node-removed:' + label, 'put #%d removed %r' % (j, p))
            tops = sorted(p for p in added if p.startswith(td + '/files/') and '/' not in p[len(td + '/files/'):])
            infos = sorted(p for p in added if p.startswith(td + '/info/'))
            if len(tops) != 1 or len(infos) != 1 or infos[0] != td + '/info/' + tops[0].rsplit('/', 1)[1] + '.trashinfo':
                return rt.fail('C04:not-exactly-one-new-pair:' + label, 'put #%d added payloads %r infos %r' % (j, tops, infos))
            if scen.sub(after, tops[0]) != payload:
                return rt.fail('C04:payload-differs-or-merged:' + label, 'put #%d: %r is not the trashed entry' % (j, tops[0]))
            for p in added:
                if not (scen.is_under(p, tops[0]) or p == infos[0] or added[p][0] == 'd' and p in (td, td + '/files', td + '/info')):
                    return rt.fail('C04:stray-node:' + label, 'put #%d added %r' % (j, p))
        return rt.ok()


def w_seq(n: int, k0: int, k1: int, k2: int, k3: int, pre: int, many: bool) -> str:
    """
    pre: PARTITION is None or (pre == PARTITION[0] and n <= PARTITION[1])
    pre: 1 <= n <= 4 and 0 <= k0 < 4 and 0 <= k1 < 4 and 0 <= k2 < 4 and 0 <= k3 < 4 and 0 <= pre < 13
    post: _ == ''
    """
    nn = rt.sel(n, 5)
    ks = [k0, k1, k2, k3]
    kk = [rt.sel(ks[q], 4) if q < nn else 0 for q in range(4)]
    return _seq(nn, kk[0], kk[1], kk[2], kk[3], rt.sel(pre, 13), rt.selb(many))


# ---------------------------------------------------------------- W: concurrency
CONC_KINDS = [('file', 'file'), ('file', 'dir'), ('dir', 'dir'), ('link-dir', 'file'), ('dir', 'link-dir')]
CONC_PRE = ['absent', 'present', 'present-with-pair-x', 'top-sticky-absent-uid']


def conc_world(kinds, pre, nproc):
    td = '/v/.Trash-1000'
    nodes = [W.d('/h'), W.f('/v/keep', 'KEEP', 0o644, 800)] + K.sentinels('/v/out')
    p = CONC_PRE[pre]
    if p == 'present':
        nodes += [W.d(td, 0o700), W.d(td + '/files', 0o700), W.d(td + '/info', 0o700)]
    elif p == 'present-with-pair-x':
        nodes += K.trashed(td, 'x', 'd9/x', '2019-01-01T00:00:00', 'file', 3000)
    elif p == 'top-sticky-absent-uid':
        nodes.append(W.d('/v/.Trash', 0o1777))
        td = '/v/.Trash/1000'
    for j in range(nproc):
        nodes += K.entry_nodes(kinds[j % len(kinds)], '/v/d%d/x' % j, 1000 + 20 * j)
    return W.W(mounts=K.MOUNTS, cwd='/v', nodes=nodes), td


def conc_judge(before, after, procs, td, label, sched_desc):
    n_ok = 0
    for j, p in enumerate(procs):
        src = '/v/d%d/x' % j
        payload = scen.sub(before, src)
        r = p.result
        if r['exc']:
            return rt.fail('C04:traceback-under-concurrency:' + label, '%s: %s %s' % (p.name, r['exc'], sched_desc))
        where = [q for q in scen.find_equal(after, payload)]
        if r['exit'] == 0:
            n_ok += 1
            ok = [q for q in where if q.startswith(td + '/files/') and '/' not in q[len(td + '/files/'):]]
            if len(ok) != 1 or scen.sub(after, src) is not None:
                return rt.fail('C04:successful-put-lost-its-payload:' + label, '%s exit 0 but its payload is at %r %s' % (p.name, where, sched_desc))
            info = scen.sub(after, td + '/info/' + ok[0].rsplit('/', 1)[1] + '.trashinfo')
            if info is None or info[0] != 'f' or not scen.spec_parse_info(info[2])[0]:
                return rt.fail('C04:successful-put-without-info:' + label, '%s %s' % (p.name, sched_desc))
            pth = scen.spec_parse_info(info[2])[1]
            if pth != src[3:]:
                return rt.fail('C04:info-belongs-to-other-process:' + label, '%s payload %r paired with Path=%r %s' % (p.name, ok[0], pth, sched_desc))
        else:
            if where != [src]:
                return rt.fail('C04:failed-put-moved-payload:' + label, '%s exit %r, payload at %r %s' % (p.name, r['exit'], where, sched_desc))
    # nothing pre-existing lost or replaced; no stray nodes
    removed, added, changed = scen.delta(before, after)
    if changed:
        return rt.fail('C04:existing-node-changed:' + label, '%r %s' % (sorted(changed), sched_desc))
    for q in removed:
        if not any(scen.is_under(q, '/v/d%d/x' % j) for j in range(len(procs))):
            return rt.fail('C04:existing-node-removed:' + label, '%r %s' % (q, sched_desc))
    ents = scen.trash_entries(after, td)
    old = scen.trash_entries(before, td)
    new_pairs = [n for n, (i, pl) in ents.items() if n not in old]
    for n in new_pairs:
        i, pl = ents[n]
        if i is None or pl is None:
            return rt.fail('C04:incomplete-pair-left:' + label, '%s: info %s payload %s %s' % (n, i is not None, pl is not None, sched_desc))
    if len(new_pairs) != n_ok:
        return rt.fail('C04:pairs-differ-from-successes:' + label, '%d successful puts, %d new pairs %s' % (n_ok, len(new_pairs), sched_desc))
    return ''


def _conc2(kp, pre, a1, b1, a2, bound=None):
    with rt.untraced():
        kinds = CONC_KINDS[kp]
        world, td = conc_world(kinds, pre, 2)
        m = W.build_model(world)
        before = m.snap('/')
        e = scen.env()
        procs = [sched.Proc(C('put', ['x'], e, cwd='/v/d%d' % j, now='2020-01-0%dT00:00:00' % (j + 1)), 'P%d' % j) for j in range(2)]
        segs = [(0, a1), (1, b1)] + ([(0, a2)] if a2 else [])
        rt.begin(('conc2', kinds, CONC_PRE[pre], segs))
        sched.run_schedule(m, procs, segs)
        if bound is not None and max(len(p.log) for p in procs) > bound:
            return rt.fail('C04:bound-too-small', 'a process made %d system calls; switch points only range over 0..%d' % (max(len(p.log) for p in procs), bound - 1))
        label = 'conc2:%s:%s' % ('+'.join(kinds), CONC_PRE[pre])
        x = conc_judge(before, m.snap('/'), procs, td, label, '[schedule %r]' % (segs,))
        return x if x else rt.ok()


SIBS = ['x.part', 'x.tmp', 'x~', '.x', 'x.partial', '.x.swp', 'x.bak', 'x_1', 'x.new', 'x.trashinfo']


def _xdev(kind, sib, sibkind):
    """the entry crosses devices into the home trash (copy + delete) while the trash already holds an entry whose name
    is the new name plus a suffix a staging / temporary copy would plausibly use: that neighbour is an entry like any
    other and must come through untouched"""
    with rt.untraced():
        rt.begin(('xdev', K.KINDS[kind], SIBS[sib], ['file', 'dir'][sibkind]))
        td = '/h/.local/share/Trash'
        nodes = [W.d('/h'), W.d('/v/d'), W.f('/v/keep', 'KEEP', 0o644, 800), W.f('/v/.Trash', 'file', 0o644, 909),
                 W.f('/v/.Trash-1000', 'file', 0o644, 910)] + K.sentinels('/v/out')
        nodes += K.trashed(td, SIBS[sib], K.quote('/v/d/' + SIBS[sib]), '2019-01-01T00:00:00', ['file', 'dir'][sibkind], 3000)
        nodes += K.entry_nodes(kind, '/v/d/x', 1000)
        e = scen.env()
        e['TRASH_ENABLE_HOME_FALLBACK'] = '1'
        m, res = scen.run_model(W.W(mounts=K.MOUNTS, cwd='/v/d', nodes=nodes),
                                [{'snap': '/'}, C('put', ['--home-fallback', '--', 'x'], e, cwd='/v/d'), {'snap': '/'}])
        before, r, after = res
        label = 'cross-device:%s:neighbour=%s' % (K.KINDS[kind], SIBS[sib])
        if r['exc'] or r['exit'] != 0:
            return rt.fail('C04:put-failed:' + label, repr(r)[:300])
        old = scen.trash_entries(before, td)
        ents = scen.trash_entries(after, td)
        for n, pair in old.items():
            if ents.get(n) != pair:
                return rt.fail('C04:existing-entry-damaged:' + label, '%s/%s: %s' % (td, n, 'gone' if n not in ents else 'changed'))
        new = [n for n in ents if n not in old]
        if len(new) != 1 or ents[new[0]][0] is None or ents[new[0]][1] is None:
            return rt.fail('C04:incomplete-pair-left:' + label, 'new entries %r' % ({n: (ents[n][0] is not None, ents[n][1] is not None) for n in new},))
        payload = scen.sub(before, '/v/d/x')
        pl = ents[new[0]][1]
        if pl != payload and not (payload[0] == 'l' and pl[0] == 'l' and pl[1] == payload[1]):
            return rt.fail('C04:payload-differs:' + label, repr(W.diff_snaps(payload, pl)[:4]))
        return rt.ok()


def w_xdev(kind: int, sib: int, sibkind: int) -> str:
    """
    pre: 0 <= kind < 6 and 0 <= sib < 10 and 0 <= sibkind < 2
    post: _ == ''
    """
    return _xdev(rt.sel(kind, 6), rt.sel(sib, 10), rt.sel(sibkind, 2))


def _victim(kp, pre, a1, a2, same):
    """P0 is preempted twice, each time by a COMPLETE run of another trash-put: P0 runs to its a1-th shared
    instant, P1 runs from start to end, P0 makes a2 further system calls, P2 runs from start to end, P0 finishes.
    same=1: P1 trashes the very path P0 is trashing (one of the two must then fail: its source has vanished),
    P2 a same-named entry of another directory -- the window in which a failing run cleans up after itself"""
    with rt.untraced():
        kinds = CONC_KINDS[kp] + ('file',)
        pts = shared_points(kp, pre, 3)
        if len(pts) > 24:
            return rt.fail('C04:bound-too-small', '%d shared instants; selectors only range over 0..23' % len(pts))
        if a1 >= len(pts):
            rt.begin()
            return rt.ok()
        world, td = conc_world(kinds, pre, 3)
        m = W.build_model(world)
        before = m.snap('/')
        e = scen.env()
        dirs = ['/v/d0', '/v/d0' if same else '/v/d1', '/v/d2']
        procs = [sched.Proc(C('put', ['x'], e, cwd=dirs[j], now='2020-01-0%dT00:00:00' % (j + 1)), 'P%d' % j) for j in range(3)]
        segs = [(0, pts[a1]), (1, None), (0, a2), (2, None)]
        rt.begin(('victim', kinds, CONC_PRE[pre], segs, same))
        sched.run_schedule(m, procs, segs)
        if max(len(p.log) for p in procs) > 72 + NSTEP:
            return rt.fail('C04:bound-too-small', 'a process made %d system calls' % max(len(p.log) for p in procs))
        after = m.snap('/')
        label = 'victim:%s:%s:%s' % ('+'.join(kinds), CONC_PRE[pre], 'same-path' if same else 'own-paths')
        desc = '[schedule %r]' % (segs,)
        for p in procs:
            if p.result['exc']:
                return rt.fail('C04:traceback-under-concurrency:' + label, '%s: %s %s' % (p.name, p.result['exc'], desc))
        n_trashed = 0
        for src in sorted(set(d + '/x' for d in dirs)):
            who = [p for p, d in zip(procs, dirs) if d + '/x' == src]
            payload = scen.sub(before, src)
            ok_runs = [p for p in who if p.result['exit'] == 0]
            where = scen.find_equal(after, payload)
            in_trash = [q for q in where if q.startswith(td + '/files/') and '/' not in q[len(td + '/files/'):]]
            if len(ok_runs) > 1:
                return rt.fail('C04:two-runs-claim-one-entry:' + label, '%s all exit 0 for %s %s' % ([p.name for p in ok_runs], src, desc))
            if ok_runs:
                n_trashed += 1
                if len(in_trash) != 1 or scen.sub(after, src) is not None:
                    return rt.fail('C04:successful-put-lost-its-payload:' + label, '%s exit 0 for %s but the payload is at %r %s' % (ok_runs[0].name, src, where, desc))
                info = scen.sub(after, td + '/info/' + in_trash[0].rsplit('/', 1)[1] + '.trashinfo')
                if info is None or info[0] != 'f' or not scen.spec_parse_info(info[2])[0]:
                    return rt.fail('C04:successful-put-without-info:' + label, '%s %s' % (ok_runs[0].name, desc))
                if scen.spec_parse_info(info[2])[1] != src[3:]:
                    return rt.fail('C04:info-belongs-to-other-process:' + label, '%r paired with Path=%r %s' % (in_trash[0], scen.spec_parse_info(info[2])[1], desc))
            elif where != [src]:
                return rt.fail('C04:failed-put-moved-payload:' + label, 'no run succeeded for %s, payload at %r %s' % (src, where, desc))
        removed, added, changed = scen.delta(before, after)
        if changed:
            return rt.fail('C04:existing-node-changed:' + label, '%r %s' % (sorted(changed), desc))
        ents = scen.trash_entries(after, td)
        old = scen.trash_entries(before, td)
        new_pairs = [n for n in ents if n not in old]
        for n in new_pairs:
            i, pl = ents[n]
            if i is None or pl is None:
                return rt.fail('C04:incomplete-pair-left:' + label, '%s: info %s payload %s %s' % (n, i is not None, pl is not None, desc))
        if len(new_pairs) != n_trashed:
            return rt.fail('C04:pairs-differ-from-successes:' + label, '%d entries trashed, %d new pairs %s' % (n_trashed, len(new_pairs), desc))
        return rt.ok()


def w_victim(kp: int, pre: int, a1: int, a2: int, same: bool) -> str:
    """
    pre: PARTITION is None or (kp == PARTITION[0] and pre == PARTITION[1] and same == PARTITION[2] and 6 * PARTITION[3] <= a1 < 6 * PARTITION[3] + 6)
    pre: 0 <= kp < 5 and 0 <= pre < 4 and 0 <= a1 < 24 and 0 <= a2 < 72
    post: _ == ''
    """
    return _victim(rt.sel(kp, 5), rt.sel(pre, 4), rt.sel(a1, 24), rt.sel(a2, 72), rt.selb(same))


def _conc3(kp, pre, a1, b1, c1):
    with rt.untraced():
        kinds = CONC_KINDS[kp] + ('file',)
        world, td = conc_world(kinds, pre, 3)
        m = W.build_model(world)
        before = m.snap('/')
        e = scen.env()
        procs = [sched.Proc(C('put', ['x'], e, cwd='/v/d%d' % j, now='2020-01-0%dT00:00:00' % (j + 1)), 'P%d' % j) for j in range(3)]
        segs = [(0, a1), (1, b1), (2, c1)]
        rt.begin(('conc3', kinds, CONC_PRE[pre], segs))
        sched.run_schedule(m, procs, segs)
        label = 'conc3:%s:%s' % ('+'.join(kinds), CONC_PRE[pre])
        x = conc_judge(before, m.snap('/'), procs, td, label, '[schedule %r]' % (segs,))
        return x if x else rt.ok()


NSTEP = 64  # a solo run takes < 64 system calls (checked by the harness)

_SHARED = {}


def shared_points(kp, pre, nproc=2):
    """instants (number of system calls already made) at which the NEXT system call of a solo run of P0 touches the
    shared trash directory: only there can a context switch change the outcome (operations on private paths commute)"""
    key = (kp, pre, nproc)
    if key not in _SHARED:
        kinds = CONC_KINDS[kp] + (('file',) if nproc == 3 else ())
        world, td = conc_world(kinds, pre, nproc)
        m = W.build_model(world)
        _, r = scen.run_model(None, [C('put', ['x'], scen.env(), cwd='/v/d0')], model=m)
        pts = [i for i, op in enumerate(m.oplog) if any(isinstance(a, str) and ('/.Trash' in a) for a in op[1:])]
        _SHARED[key] = pts + [len(m.oplog)]
    return _SHARED[key]


def w_conc2(kp: int, pre: int, a1: int, b1: int) -> str:
    """
    pre: PARTITION is None or (kp == PARTITION[0] and pre == PARTITION[1])
    pre: 0 <= kp < 5 and 0 <= pre < 4 and 0 <= a1 < 72 and 0 <= b1 < 72
    post: _ == ''
    """
    return _conc2(rt.sel(kp, 5), rt.sel(pre, 4), rt.sel(a1, 72), rt.sel(b1, 72), 0, bound=72)


def w_conc2s(kp: int, pre: int, a1: int, b1: int) -> str:
    """
    pre: PARTITION is None or (kp == PARTITION[0] and pre == PARTITION[1])
    pre: 0 <= kp < 5 and 0 <= pre < 4 and 0 <= a1 < 24 and 0 <= b1 < 24
    post: _ == ''
    """
    kp, pre = rt.sel(kp, 5), rt.sel(pre, 4)
    a1, b1 = rt.sel(a1, 24), rt.sel(b1, 24)
    with rt.untraced():
        pts = shared_points(kp, pre)
        if len(pts) > 24:
            return rt.fail('C04:bound-too-small', '%d shared instants; selectors only range over 0..23' % len(pts))
        if a1 >= len(pts) or b1 >= len(pts):
            rt.begin()
            return rt.ok()
        segs = (pts[a1], pts[b1])
    return _conc2(kp, pre, segs[0], segs[1], 0)


def w_conc2x(kp: int, pre: int, a1: int, b1: int, a2: int) -> str:
    """
    pre: PARTITION is None or (kp == PARTITION[0] and pre == PARTITION[1])
    pre: 0 <= kp < 5 and 0 <= pre < 4 and 0 <= a1 < 24 and 0 <= b1 < 24 and 0 <= a2 < 24
    post: _ == ''
    """
    kp, pre = rt.sel(kp, 5), rt.sel(pre, 4)
    a1, b1, a2 = rt.sel(a1, 24), rt.sel(b1, 24), rt.sel(a2, 24)
    with rt.untraced():
        pts = shared_points(kp, pre)
        if len(pts) > 24:
            return rt.fail('C04:bound-too-small', '%d shared instants; selectors only range over 0..23' % len(pts))
        if a1 >= len(pts) or b1 >= len(pts) or a2 >= len(pts) or a2 <= a1:
            rt.begin()
            return rt.ok()
        # P0 runs to its a1-th shared instant, P1 to its b1-th, P0 on to its a2-th, then both complete
        segs = (pts[a1], max(1, pts[b1]), pts[a2] - pts[a1])
    return _conc2(kp, pre, segs[0], segs[1], segs[2])


def w_conc3(kp: int, pre: int, a1: int, b1: int, c1: int) -> str:
    """
    pre: PARTITION is None or (kp == PARTITION[0] and pre == PARTITION[1])
    pre: 0 <= kp < 5 and 0 <= pre < 4 and 0 <= a1 < 24 and 0 <= b1 < 24 and 0 <= c1 < 24
    post: _ == ''
    """
    kp, pre = rt.sel(kp, 5), rt.sel(pre, 4)
    a1, b1, c1 = rt.sel(a1, 24), rt.sel(b1, 24), rt.sel(c1, 24)
    with rt.untraced():
        pts = shared_points(kp, pre, 3)
        if len(pts) > 24:
            return rt.fail('C04:bound-too-small', '%d shared instants; selectors only range over 0..23' % len(pts))
        if a1 >= len(pts) or b1 >= len(pts) or c1 >= len(pts):
            rt.begin()
            return rt.ok()
        segs = (pts[a1], pts[b1], pts[c1])
    return _conc3(kp, pre, segs[0], segs[1], segs[2])


def obligations(tier):
    parts_q = [(k, p) for k in (0, 1, 3) for p in (0, 2)]
    parts_t = [(k, p) for k in range(5) for p in range(4)]
    parts_q2 = [(k, p) for k in range(5) for p in (0, 2)]
    obs = [
        CH('K_names_unique_and_paired', MOD, 'k_names', timeout=300, partitions=list(range(10)), engine='K', regime='traced',
           encodes=['create_trashinfo_basename', 'Suffix.suffix_for_index'],
           stubs=['IntGenerator -> symbolic value'], bounds="base name: any str without '/', len<=3; indices from {0,1,2,9,10,11,99,100,101,129}; random value from {0,7,100,65535}"),
        CH('W_sequences_same_name', MOD, 'w_seq', timeout=1800, partitions=[(q, 4 if tier == 'thorough' else 2) for q in range(13)], engine='W', regime='selector',
           encodes=K.PUT_FUNCS, stubs=K.STUBS,
           bounds='1..2 (quick) / 1..4 (thorough) successive puts of entries named x or a 250-byte name (4 kinds each) x 13 pre-existing states x (<100 | >100 same-named entries with colliding random suffixes)'),
        CH('W_two_processes_switch_at_shared_instants', MOD, 'w_conc2s', timeout=1800, partitions=parts_t if tier == 'thorough' else parts_q2,
           engine='W', regime='selector', encodes=K.PUT_FUNCS + ['vf.sched replay-stepping'], stubs=K.STUBS,
           bounds='2 concurrent trash-put; P0 runs to its a1-th shared instant (next system call touches the trash directory), P1 to its b1-th, '
                  'then both complete; every pair of shared instants x 5 kind pairs x 2 (quick) / 4 (thorough) trash-dir pre-states'),
    ]
    obs.append(CH('W_cross_device_put_next_to_suffixed_names', MOD, 'w_xdev', timeout=600, engine='W', regime='selector', encodes=K.PUT_FUNCS, stubs=K.STUBS,
                  bounds='home fallback across devices x 6 kinds x 10 pre-existing neighbour names (x.part, x.tmp, x~, .x, x.partial, .x.swp, x.bak, x_1, x.new, x.trashinfo) x file / directory'))
    vparts = [(k, p, sm, r) for (k, p) in ([(0, 0), (0, 2)] if tier == 'quick' else [(k, p) for k in (0, 1, 2) for p in range(4)]) for sm in (False, True) for r in range(4)]
    obs.append(CH('W_victim_preempted_twice_by_complete_runs', MOD, 'w_victim', timeout=2400, partitions=vparts, engine='W', regime='selector',
                  encodes=K.PUT_FUNCS + ['vf.sched replay-stepping'], stubs=K.STUBS,
                  bounds='3 concurrent trash-put: P0 runs to its a1-th shared instant, P1 completes, P0 makes a2 < 72 further system calls, P2 completes, P0 finishes; '
                         'P1 trashes P0\'s own path (one of them must fail) or another one; %d kind/pre-state combinations' % (len(vparts) // 8)))
    if tier == 'thorough':
        obs.append(CH('W_two_processes_2_preemptions', MOD, 'w_conc2', timeout=7000, partitions=parts_q, twin=False,
           engine='W', regime='selector', encodes=K.PUT_FUNCS + ['vf.sched replay-stepping'], stubs=K.STUBS,
           bounds='2 concurrent trash-put x (P0 runs a1 syscalls, P1 runs b1, then both complete), a1,b1 in 0..71 (a solo run is shorter: checked) x kind pairs x trash-dir pre-states (3 x 2): validates the commutation argument behind the shared-instant restriction'))
        parts_x = [(k, p) for k in (0, 1) for p in (0, 1, 2)]
        obs.append(CH('W_two_processes_3_preemptions', MOD, 'w_conc2x', timeout=14000, partitions=parts_x, twin=False, engine='W',
                      regime='selector', encodes=K.PUT_FUNCS + ['vf.sched replay-stepping'], stubs=K.STUBS,
                      bounds='P0 to its a1-th shared instant, P1 to its b1-th, P0 to its a2-th, then completion; switch points restricted to '
                             'instants before a system call on a path under the trash directory (private operations commute); 2 kind pairs x 3 pre-states'))
        obs.append(CH('W_three_processes', MOD, 'w_conc3', timeout=14000, partitions=parts_x, twin=False, engine='W',
                      regime='selector', encodes=K.PUT_FUNCS + ['vf.sched replay-stepping'], stubs=K.STUBS,
                      bounds='3 concurrent trash-put: P0, P1, P2 each run to a chosen shared instant, then complete in order; same restriction; 2 x 3'))
    return kpair.obligations(tier) + obs

"""C16 -- trash-put's exit status tells the truth and arguments are handled independently."""
from vf import rt, scen, world as W
from vf.commands import C
from vf.runner import CH
from harness import common as K

PARTITION = None
MOD = 'harness.c16'
META = {
    'level': 'other',
    'explanation': 'Bounded symbolic checking with CrossHair/z3. K_exit: TrashPutReporter.exit_code and Context.trash_each '
                   'with a trasher stub whose per-argument results are symbolic booleans: exit non-zero iff some result is '
                   'Failure, failed list = failing arguments in order, every argument visited exactly once. W: the real '
                   'trash-put main() on the PosixModel for argument lists of symbolic length and symbolic per-position '
                   'kind (trashable file/dir, nonexistent, dot entry, non-UTF-8 name, entry whose trashing fails, '
                   'duplicate of an earlier argument), with -f / -i / -v; oracle: per-argument outcome equals the outcome '
                   'of the same argument run alone on a clone, exit 0 iff all trashed or legitimately skipped, a '
                   'diagnostic naming each failed argument.',
    'assumptions': ['PosixModel fidelity (./check MODEL)', 'lists of up to 3 (quick) / 4 (thorough) arguments; the '
                    "property's 6 is outside the solver bound"],
}


class _T(object):
    def __init__(self, results):
        self.results = results
        self.seen = []

    def trash_single(self, path, context):
        from trashcli.put.core.trash_result import TrashResult
        self.seen.append(path)
        return TrashResult.Failure if self.results[int(path)] else TrashResult.Success


def k_exit(n: int, f0: bool, f1: bool, f2: bool, f3: bool) -> str:
    """
    pre: 0 <= n <= 4
    post: _ == ''
    """
    rt.begin()
    from trashcli.put.context import Context
    from trashcli.put.core.mode import Mode
    from trashcli.put.core.logs import LogData
    from trashcli.put.reporting.trash_put_reporter import TrashPutReporter
    fl = [f0, f1, f2, f3]
    paths = ['0', '1', '2', '3'][:n]
    t = _T(fl)
    ctx = Context(paths=paths, user_trash_dir=None, mode=Mode.mode_unspecified, forced_volume=None, home_fallback=False,
                  program_name='trash-put', log_data=LogData('trash-put', 0), environ={}, uid=1000)
    res = ctx.trash_each(t)
    code = TrashPutReporter.exit_code(res)
    want_failed = [p for p in paths if fl[int(p)]]
    if t.seen != paths:
        return rt.fail('C16:arguments-not-each-visited-once', 'visited %r for %r' % (t.seen, paths))
    if list(res.failed_paths) != want_failed:
        return rt.fail('C16:failed-list', '%r vs %r' % (res.failed_paths, want_failed))
    if (code != 0) != (len(want_failed) > 0):
        return rt.fail('C16:exit-code', 'exit %r with failures %r' % (code, want_failed))
    return rt.ok()


AK = ['file', 'dir', 'nonexistent', 'dot', 'non-utf8', 'untrashable', 'duplicate-of-first', 'link', 'dotdot-slash', 'empty-string',
      'unwritable-info-dir', 'crowded-name', 'needs-one-retry', 'path-through-a-file', 'name-too-long']
NAK = len(AK)
MODES = [([], []), (['-f'], []), (['-i'], ['y', 'n', 'y', 'n']), (['-v'], []), (['-i'], ['n', 'n', 'n', 'n']), (['-f', '-v'], []),
         (['--trash-dir', '/v/td'], []),  # one volume-independent trash dir for arguments that live on three volumes
         ([], []), (['-v'], [])]          # (modes 7, 8: $HOME holds an unbalanced regular-expression character, see MODE_HOME)
MODE_HOME = {7: '/h(1', 8: '/h[x'}
NMODE = len(MODES)
BADNAME = 'bad\udcff'
RAND = (12345, 23456, 34567, 45678)  # what the random suffix generator answers (names beyond the 100th collision)


def arg_for(kind, pos):
    """(argument, nodes, absolute path or None)"""
    k = AK[kind]
    d = '/v/d%d' % pos
    if k == 'file':
        return d + '/f', K.entry_nodes('file', d + '/f', 1000 + 10 * pos), d + '/f'
    if k == 'dir':
        return d + '/dd', K.entry_nodes('dir', d + '/dd', 1100 + 10 * pos), d + '/dd'
    if k == 'link':
        return d + '/ln', K.entry_nodes('link-dir', d + '/ln', 1200 + 10 * pos), d + '/ln'
    if k == 'nonexistent':
        return d + '/missing', [W.d(d)], None
    if k == 'dot':
        return d + '/.', [W.d(d), W.f(d + '/keep', 'k', 0o644, 1300 + pos)], None
    if k == 'dotdot-slash':
        return d + '/sub/../', [W.d(d + '/sub'), W.f(d + '/keep', 'k', 0o644, 1300 + pos)], None
    if k == 'non-utf8':
        return d + '/' + BADNAME, [W.d(d), ['f', d + '/' + BADNAME, 0o644, 'B', 1400 + pos]], d + '/' + BADNAME
    if k == 'untrashable':
        # lives on volume /w whose only candidates are unusable (.Trash is a file, .Trash-uid is a file)
        # (its name holds a format directive: the diagnostic about a FAILED argument is built from it)
        nm = '/w/u%%s%d%%' % pos
        return nm, [W.f(nm, 'U', 0o644, 1500 + pos)], nm
    if k == 'empty-string':
        return '', [], None
    if k == 'path-through-a-file':
        # does not exist, but the kernel says ENOTDIR rather than ENOENT
        return d + '/plain/x', [W.d(d), W.f(d + '/plain', 'P', 0o644, 1900 + pos)], None
    if k == 'name-too-long':
        return d + '/' + 'n' * 300, [W.d(d)], None
    if k == 'needs-one-retry':
        # the first .trashinfo name is taken by a lone info file (left by an interrupted run): one EEXIST, then <name>_1 works
        nm = 'rt%d' % pos
        return d + '/' + nm, [W.d(d), W.f(d + '/' + nm, 'RT%d' % pos, 0o644, 1800 + pos), W.d('/v/.Trash-1000/files', 0o700),
                              W.f('/v/.Trash-1000/info/' + nm + '.trashinfo', K.info_text('old/' + nm, '2019-01-01T00:00:00'), 0o600, 3400 + pos)], d + '/' + nm
    if k == 'crowded-name':
        # 100 entries called cr, cr_1 .. cr_99 are already in the trash dir of /v: the next one needs a random suffix
        nodes = [W.d(d), W.f(d + '/cr', 'CR%d' % pos, 0o644, 1700 + pos)]
        for j in range(100):
            nm = 'cr' if j == 0 else 'cr_%d' % j
            nodes += [W.f('/v/.Trash-1000/files/' + nm, 'OLD', 0o644, 3000 + j),
                      W.f('/v/.Trash-1000/info/' + nm + '.trashinfo', K.info_text('old/cr', '2019-01-01T00:00:00'), 0o600, 3200 + j)]
        return d + '/cr', nodes, d + '/cr'
    if k == 'unwritable-info-dir':
        # volume /w2: its only usable trash dir exists, but no file can be created in its info/ (PathFaultHook below)
        return '/w2/n%d' % pos, [W.f('/w2/n%d' % pos, 'N', 0o644, 1600 + pos), W.d('/w2/.Trash-1000/files', 0o700), W.d('/w2/.Trash-1000/info', 0o700)], '/w2/n%d' % pos
    raise ValueError(k)


def build(kinds, mode):
    nodes = [W.d(MODE_HOME.get(mode, '/h')), W.f('/v/keep', 'KEEP', 0o644, 800), W.f('/w/.Trash', 'x', 0o644, 801), W.f('/w/.Trash-1000', 'x', 0o644, 802)]
    nodes += K.sentinels('/v/out')
    args, paths = [], []
    for pos, kind in enumerate(kinds):
        if AK[kind] == 'duplicate-of-first':
            args.append(args[0] if args else '/v/d0/f')
            paths.append(paths[0] if paths else None)
            continue
        a, n, p = arg_for(kind, pos)
        nodes += n
        args.append(a)
        paths.append(p)
    world = W.W(mounts=['/', '/v', '/w', '/w2'], cwd='/v', nodes=nodes)
    return world, args, paths


def _hook():
    return scen.PathFaultHook('open', '/w2/.Trash-1000/info', 13)


def classify(before, after, path, res_alone=None):
    if path is None:
        return 'n/a'
    if scen.sub(after, path) == scen.sub(before, path):
        return 'untouched'
    if scen.sub(after, path) is None and scen.find_equal(after, scen.sub(before, path)):
        return 'trashed'
    return 'other'


def _case(n, k0, k1, k2, k3, mode):
    with rt.untraced():
        kinds = [k0, k1, k2, k3][:n]
        rt.begin(([AK[k] for k in kinds], MODES[mode][0]))
        world, args, paths = build(kinds, mode)
        opts, stdin = MODES[mode]
        e = scen.env(home=MODE_HOME.get(mode, scen.HOME))
        label = '+'.join(AK[k] for k in kinds)
        m, res = scen.run_model(world, [{'snap': '/'}, C('put', opts + ['--'] + args, e, stdin=list(stdin), cwd='/v', rand=RAND), {'snap': '/'}], hook=_hook(), max_ops=60000)
        before, r, after = res
        if r['exc']:
            culprit = 'non-utf8' if 'surrogates not allowed' in r['exc'] else label
            return rt.fail('C16:traceback:%s:%s' % (r['exc'].split(':')[0], culprit),
                           'trash-put %r aborted: %s' % (args, r['exc']))
        # each argument alone, on a fresh clone, with the reply its own prompt received in the list run
        interactive = '-i' in opts
        any_failed = False
        import re
        asked = re.findall(r"trash-put: trash [^']*'((?:[^']|'(?!\? ))*)'\? ", r['out'])
        reply_for = {}
        for qi, ap in enumerate(asked):
            reply_for.setdefault(ap, []).append(stdin[qi] if qi < len(stdin) else None)
        expect = []  # per position: (expected outcome, expected failure)
        for pos, (kind, a, p) in enumerate(zip(kinds, args, paths)):
            k = AK[kind]
            if k == 'duplicate-of-first':
                k = AK[kinds[0]] if pos > 0 else 'nonexistent'
                if k == 'duplicate-of-first':
                    k = 'nonexistent'
                if pos > 0 and expect[0][0] == 'trashed':
                    k = 'gone-by-then'
            reply = None
            if interactive and reply_for.get(a):
                reply = reply_for[a].pop(0)
            declined = interactive and reply is not None and not reply[:1] in ('y', 'Y')
            if k in ('file', 'dir', 'link', 'crowded-name', 'needs-one-retry'):
                if interactive and reply is None:
                    return rt.fail('C16:not-asked-under-i:%s' % k, 'argument %r of %r was not asked about; stdout %r' % (a, args, r['out'][-300:]))
                expect.append(('untouched', False) if declined else ('trashed', False))
            elif k in ('nonexistent', 'empty-string', 'gone-by-then', 'path-through-a-file', 'name-too-long'):
                expect.append((None, '-f' not in opts))
            elif k in ('dot', 'dotdot-slash'):
                expect.append((None, True))
            elif k in ('non-utf8', 'untrashable', 'unwritable-info-dir'):
                expect.append(('untouched', not declined))
            else:
                raise ValueError(k)
        any_failed = False
        for pos, (kind, a, p) in enumerate(zip(kinds, args, paths)):
            want_out, want_fail = expect[pos]
            got = classify(before, after, p)
            first_of_dup = AK[kind] == 'duplicate-of-first' and pos > 0
            if want_out is not None and not first_of_dup and got != want_out:
                return rt.fail('C16:outcome:%s' % AK[kind], 'argument %d (%r, %s) of %r under %r: %s, expected %s; stderr %r' % (
                    pos, a, AK[kind], args, opts, got, want_out, r['err'][-300:]))
            if AK[kind] in ('file', 'dir', 'link', 'non-utf8', 'untrashable', 'nonexistent', 'unwritable-info-dir', 'crowded-name', 'needs-one-retry'):
                my_stdin = []
                if interactive and want_out is not None:
                    my_stdin = ['n'] if (want_out == 'untouched' and not want_fail) else ['y']
                ma, ra = scen.run_model(world, [{'snap': '/'}, C('put', opts + ['--', a], e, stdin=my_stdin, cwd='/v', rand=RAND), {'snap': '/'}], hook=_hook(), max_ops=60000)
                alone = classify(ra[0], ra[2], p)
                if alone != got and not first_of_dup:
                    return rt.fail('C16:outcome-depends-on-neighbours:%s' % AK[kind],
                                   'argument %d (%r, %s) of %r: %s in the list, %s when run alone' % (pos, a, AK[kind], args, got, alone))
            if want_fail:
                any_failed = True
                shown = a if a != '' else "''"
                if a.encode('utf-8', 'surrogateescape').decode('utf-8', 'replace') not in r['err'] and shown not in r['err'] \
                        and a.encode('utf-8', 'backslashreplace').decode() not in r['err']:
                    return rt.fail('C16:no-diagnostic-for-failed-argument:%s' % AK[kind],
                                   'argument %r (%s) failed, stderr does not name it: %r' % (a, AK[kind], r['err'][-400:]))
        # nothing that was in a trash directory before the run is taken away or altered by it (e.g. the .trashinfo an
        # interrupted earlier run left under a name this run wanted)
        removed, added, changed = scen.delta(before, after)
        for q in sorted(list(removed) + list(changed)):
            if any(seg in q for seg in ('/.Trash-1000/', '/.Trash/1000/', '/v/td/', '/.local/share/Trash/')):
                return rt.fail('C16:existing-trash-content-touched:' + label, '%s was %s by trash-put %r' % (q, 'removed' if q in removed else 'changed', args))
        if any_failed and r['exit'] == 0:
            return rt.fail('C16:exit-0-despite-failure:' + label, 'args %r under %r: some argument failed (stderr %r) but the exit status is 0' % (args, opts, r['err'][-200:]))
        if not any_failed and r['exit'] != 0:
            return rt.fail('C16:exit-nonzero-without-failure:' + label, 'args %r exit %r stderr %r' % (args, r['exit'], r['err'][-300:]))
        return rt.ok()


def third_full():
    """thorough tier (PARTITION = (k0, True)): the third argument ranges over all 15 kinds, else over 6 of them"""
    return bool(PARTITION is not None and PARTITION[1])


def w_lists(n: int, k0: int, k1: int, k2: int, mode: int) -> str:
    """
    pre: PARTITION is None or k0 == PARTITION[0]
    pre: 1 <= n <= 3 and 0 <= k0 < NAK and 0 <= k1 < NAK and 0 <= k2 < (NAK if third_full() else 6) and 0 <= mode < NMODE
    post: _ == ''
    """
    nn = rt.sel(n, 4)
    # (selectors of positions the list does not have are not branched on)
    b = rt.sel(k1, NAK) if nn >= 2 else 0
    c = (rt.sel(k2, NAK) if third_full() else rt.of([0, 2, 4, 6, 10, 12], k2)) if nn >= 3 else 0
    return _case(nn, rt.sel(k0, NAK), b, c, 0, rt.sel(mode, NMODE))


def w_lists4(k0: int, k1: int, k2: int, k3: int, mode: int) -> str:
    """
    pre: PARTITION is None or k0 == PARTITION
    pre: 0 <= k0 < NAK and 0 <= k1 < NAK and 0 <= k2 < NAK and 0 <= k3 < 6 and 0 <= mode < NMODE
    post: _ == ''
    """
    return _case(4, rt.sel(k0, NAK), rt.sel(k1, NAK), rt.sel(k2, NAK), rt.of([0, 2, 4, 6, 10, 12], k3), rt.sel(mode, NMODE))


def obligations(tier):
    obs = [
        CH('K_exit_code_and_iteration', MOD, 'k_exit', timeout=120, engine='K', regime='traced',
           encodes=['Context.trash_each', 'TrashPutReporter.exit_code', 'TrashAllResult.any_failure'],
           stubs=['SingleTrasher -> symbolic results'], bounds='0..4 arguments, every failure pattern'),
        CH('W_argument_lists_up_to_3', MOD, 'w_lists', timeout=6000, partitions=[(k, tier == 'thorough') for k in range(NAK)], engine='W', regime='selector',
           encodes=K.PUT_FUNCS, stubs=K.STUBS, bounds='lists of 1..3 arguments x 15 argument kinds per position (third position: %s) x 9 option sets (two of them with an unbalanced ( or [ in $HOME)' % ('15 kinds' if tier == 'thorough' else '6 kinds: 0 2 4 6 10 12')),
    ]
    if tier == 'thorough':
        obs.append(CH('W_argument_lists_of_4', MOD, 'w_lists4', timeout=14000, partitions=list(range(NAK)), twin=False, engine='W',
                      regime='selector', encodes=K.PUT_FUNCS, stubs=K.STUBS, bounds='lists of 4 arguments: 15 kinds for the first three positions, 6 for the fourth, x 9 option sets (two of them with an unbalanced ( or [ in $HOME)'))
    return obs

"""C13 -- trash-restore offers the right entries and restores exactly the indices chosen."""
from vf import rt, scen, world as W
from vf.commands import C
from vf.runner import CH
from harness import common as K, kpair

PARTITION = None
MOD = 'harness.c13'
META = {
    'level': 'other',
    'explanation': 'Bounded symbolic checking with CrossHair/z3. K_grammar: the real parse_indexes over ALL reply strings '
                   'up to the bound against a reference parser of the documented grammar (differential); K_scope: the '
                   'real original_location_matches_path over all strings up to the bound; K_select: '
                   'trashed_files_to_restore + restore_selected_files with a recording restorer (nothing restored on any '
                   'rejecting path). W: the real trash-restore main() on the PosixModel over symbolic selectors.',
    'assumptions': ['PosixModel fidelity (./check MODEL)', 'int() of the interpreter for digit strings'],
}


# ---------------------------------------------------------------- K: grammar
def ref_parse(reply, n):
    """reference: comma separated indices and inclusive a-b ranges; returns list or None"""
    out = []
    for part in reply.split(','):
        if '-' in part:
            bits = part.split('-')
            if len(bits) != 2:
                return None
            a, b = ref_int(bits[0]), ref_int(bits[1])
            if a is None or b is None:
                return None
            i = a
            while i <= b:
                out.append(i)
                i += 1
        else:
            a = ref_int(part)
            if a is None:
                return None
            out.append(a)
    for i in out:
        if i < 0 or i >= n:
            return None
    return out


def ref_int(s):
    """what int() accepts for a reply of this alphabet: optional surrounding blanks, optional sign, digits
    (underscores between digits).  Anything else: None."""
    t = s.strip(' \t\n\r\x0b\x0c')
    if t == '':
        return None
    neg = False
    if t[0] in '+-':
        neg = t[0] == '-'
        t = t[1:]
    if t == '' or t[0] == '_' or t[-1] == '_' or '__' in t:
        return None
    v = 0
    for ch in t:
        if ch == '_':
            continue
        if ch < '0' or ch > '9':
            return None
        v = v * 10 + (ord(ch) - 48)
    return -v if neg else v


ALPHABET = '0123456789-, +x'


def k_grammar(reply: str, n: int) -> str:
    """
    pre: 1 <= n <= 6
    pre: 1 <= len(reply) <= PARTITION[2]
    pre: reply.startswith(PARTITION[1]) if PARTITION[0] == 'prefix' else len(reply) < PARTITION[1]
    pre: all(c in '0123456789-, +x' for c in reply)
    post: _ == ''
    """
    rt.begin()
    from trashcli.restore.restore_asking_the_user import parse_indexes
    want = ref_parse(reply, n)
    try:
        got = list(parse_indexes(reply, n).all_indexes())
    except Exception:
        got = None
    if got is None and want is None:
        return rt.ok()
    if got is None:
        return rt.fail('C13:valid-reply-rejected', 'reply %r (n=%d): reference selects %r, parse_indexes raises' % (reply, n, want))
    if want is None:
        return rt.fail('C13:invalid-reply-accepted', 'reply %r (n=%d): parse_indexes yields %r, the grammar rejects it' % (reply, n, got))
    if got != want:
        return rt.fail('C13:wrong-indexes', 'reply %r (n=%d): got %r want %r' % (reply, n, got, want))
    return rt.ok()


def k_scope(loc: str, path: str) -> str:
    """
    pre: len(loc) <= 5 and len(path) <= 4
    pre: loc.startswith('/') and path.startswith('/')
    pre: not (len(path) > 1 and path.endswith('/'))
    post: _ == ''
    """
    rt.begin()
    from trashcli.restore.trashed_file import TrashedFile
    got = TrashedFile(loc, None, 'i', 'f').original_location_matches_path(path)
    # reference: equal, or beneath at a component boundary
    if path == '/':
        want = True
    else:
        want = (loc == path) or (len(loc) > len(path) and loc[:len(path)] == path and loc[len(path)] == '/')
    if got != want:
        return rt.fail('C13:scope-mismatch', 'location %r vs requested %r: got %r want %r' % (loc, path, got, want))
    return rt.ok()


class _RecRestorer(object):
    def __init__(self):
        self.calls = []

    def restore_trashed_file(self, tf, overwrite):
        self.calls.append(tf)


def k_select(reply: str, n: int) -> str:
    """
    pre: 1 <= n <= 4
    pre: 1 <= len(reply) <= PARTITION[2]
    pre: reply.startswith(PARTITION[1]) if PARTITION[0] == 'prefix' else len(reply) < PARTITION[1]
    pre: all(c in '0123456789-, +x' for c in reply)
    post: _ == ''
    """
    rt.begin()
    from trashcli.restore.restore_asking_the_user import RestoreAskingTheUser
    from trashcli.restore.output_recorder import OutputRecorder
    from trashcli.lib.my_input import HardCodedInput
    files = ['f0', 'f1', 'f2', 'f3'][:n]
    rec = _RecRestorer()
    out = OutputRecorder()
    try:
        RestoreAskingTheUser(HardCodedInput(reply), rec, out).restore_asking_the_user(files, False)
        raised = False
    except Exception:
        raised = True
    want = ref_parse(reply, n)
    if want is None:
        if rec.calls:
            return rt.fail('C13:restored-despite-invalid-reply', 'reply %r (n=%d) restored %r' % (reply, n, rec.calls))
        if not raised and not out.events:
            return rt.fail('C13:invalid-reply-silent', 'reply %r (n=%d): no error event' % (reply, n))
        return rt.ok()
    if raised:
        return rt.fail('C13:valid-reply-raised', 'reply %r (n=%d)' % (reply, n))
    if rec.calls != [files[i] for i in want]:
        return rt.fail('C13:wrong-selection', 'reply %r (n=%d): restored %r want %r' % (reply, n, rec.calls, want))
    return rt.ok()


# ------------------------------------------------------------ W: whole command
LOCS = ['/v/a/foo', '/v/a/foobar', '/v/a', '/v/a/foo/x', '/v/b', '/v/a/z', '/v/a/foo-old/nested', '/v/a/foobar/y']
DATES = ['2020-01-03T00:00:00', '2020-01-01T00:00:00', '2020-01-02T00:00:00', '2020-01-05T00:00:00',
         '2020-01-04T00:00:00', '2020-01-01T00:00:00', '2020-01-06T00:00:00', '2020-01-07T00:00:00']
SETS = [[0, 1, 2, 3, 4], [0, 1], [3, 5, 1], [4], [0, 1, 2, 3, 4, 5], [3, 6, 7], [0, 6]]
PATHARGS = [('/v/a/foo', None), ('/v/a', None), ('/', None), ('/v', None), ('/v/a', 'foo'), ('/v/b', '/v/a/foo'),
            ('/v/a', '.'), ('/v/a/foo', '..'), ('/v/zzz', None)]
SORTS = [None, 'date', 'path', 'none']
REPLIES = ['0', '1', '0,2', '1-2', '2-1', '0-0', '9', '0,9', 'x', '', ' 1', '1-2-3', None, '0,0', '-1', '1-', '0-9', '+1', '00']


def scenario(eset, pa, sort, reply):
    nodes = [W.d('/h'), W.d('/v/a'), W.d('/v/b'), W.d('/v/zzz'), W.f('/v/keep', 'KEEP', 0o644, 800)]
    td = '/v/.Trash-1000'
    # a neighbour without a Path line, read BEFORE every well-formed entry: it is reported, the scan goes on
    nodes += [W.d(td, 0o700), W.d(td + '/files', 0o700), W.d(td + '/info', 0o700),
              W.f(td + '/info/0bad.trashinfo', '[Trash Info]\nDeletionDate=2020-01-01T00:00:00\n', 0o600, 1990)]
    for j, li in enumerate(SETS[eset]):
        loc = LOCS[li]
        raw = None
        if j == 0:
            # (the first record was written with CRLF line endings by another tool: text-mode readers do not care)
            raw = K.info_text(K.quote(loc[len('/v/'):]), DATES[li]).replace('\n', '\r\n')
        nodes += K.trashed(td, 'e%d' % j, K.quote(loc[len('/v/'):]), DATES[li], 'file' if li != 2 else 'dir', 2000 + 20 * j, raw_info=raw)
    cwd, arg = PATHARGS[pa]
    if cwd == '/v/a/foo':
        nodes.append(W.d('/v/a/foo'))  # restoring /v/a/foo itself is then refused (C06), its children are not
    args = []
    if SORTS[sort]:
        args += ['--sort', SORTS[sort]]
    if arg is not None:
        args.append(arg)
    rp = REPLIES[reply]
    stdin = [] if rp is None else [rp]
    world = W.W(mounts=K.MOUNTS, cwd=cwd, nodes=nodes)
    steps = [{'snap': '/'}, C('restore', args, scen.env(), stdin=stdin, cwd=cwd), {'snap': '/'}]
    return world, steps, td


def expected_scope(cwd, arg):
    import posixpath
    return posixpath.normpath(posixpath.join(cwd, arg or ''))


def _case(eset, pa, sort, reply):
    with rt.untraced():
        rt.begin((SETS[eset], PATHARGS[pa], SORTS[sort], REPLIES[reply]))
        world, steps, td = scenario(eset, pa, sort, reply)
        label = 'reply=%r:sort=%s' % (REPLIES[reply], SORTS[sort])
        m, res = scen.run_model(world, steps)
        before, r, after = res
        if r['exc']:
            # a traceback is acceptable only as a way of rejecting an invalid reply: nothing restored, exit != 0
            if after != before:
                return rt.fail('C13:traceback-with-effects:' + label, r['exc'])
            rp = REPLIES[reply]
            if rp is not None and rp != '' and ref_parse(rp, 99) is not None:
                return rt.fail('C13:traceback:%s:%s' % (r['exc'].split(':')[0], label), r['exc'])
            return rt.ok() if ref_parse(rp or 'x', 99) is None else rt.fail('C13:traceback:' + label, r['exc'])
        cwd, arg = PATHARGS[pa]
        scope = expected_scope(cwd, arg)
        entries = []  # (loc, date, name)
        for j, li in enumerate(SETS[eset]):
            loc = LOCS[li]
            if scope == '/' or loc == scope or loc.startswith(scope + '/'):
                entries.append((loc, DATES[li].replace('T', ' '), 'e%d' % j))
        lst = K.restore_listing(r['out'])
        if sorted((p, d) for (_, d, p) in lst) != sorted((l, d) for (l, d, _) in entries):
            return rt.fail('C13:wrong-entries-offered:scope=%s' % scope,
                           'scope %r: offered %r, expected %r' % (scope, lst, entries))
        if [i for (i, _, _) in lst] != list(range(len(lst))):
            return rt.fail('C13:not-numbered-from-0', repr(lst))
        s = SORTS[sort] or 'date'
        if s == 'date':
            keys = [d for (_, d, _) in lst]
            if keys != sorted(keys):
                return rt.fail('C13:not-sorted-by-date', repr(lst))
        elif s == 'path':
            keys = [p for (_, _, p) in lst]
            if keys != sorted(keys):
                return rt.fail('C13:not-sorted-by-path', repr(lst))
        # which pairs left the trash / appeared
        by_line = []
        for (_, d, p) in lst:
            cands = [n for (l, dd, n) in entries if l == p and dd == d]
            by_line.append(cands[0])
        gone = [n for (_, _, n) in entries if scen.sub(after, td + '/files/' + n) is None]
        rp = REPLIES[reply]
        if not entries:
            if after != before:
                return rt.fail('C13:nothing-offered-but-changed', '')
            return rt.ok()
        want = None if rp is None or rp == '' else ref_parse(rp, len(lst))
        if want is None:
            if after != before:
                return rt.fail('C13:invalid-reply-had-effects:' + label, 'removed/added: %r' % (scen.delta(before, after)[:2],))
            if rp not in ('', None) and r['exit'] == 0:
                return rt.fail('C13:invalid-reply-exit-0:' + label, 'exit 0 for reply %r with %d entries' % (rp, len(lst)))
            return rt.ok()
        want_names = [by_line[i] for i in want]
        # a duplicated index restores once then collides with itself: the second attempt is refused
        uniq = []
        for n in want_names:
            if n not in uniq:
                uniq.append(n)
        # nested destinations (/v/a then /v/a/foo) may legitimately be refused by C06; only demand:
        # restored set is a prefix-closed subset of the selection and nothing outside the selection moved
        for n in gone:
            if n not in uniq:
                return rt.fail('C13:unselected-entry-restored:' + label, 'entry %r left the trash, selection was %r' % (n, uniq))
        if r['exit'] == 0 and sorted(gone) != sorted(uniq) and len(uniq) == len(want_names):
            return rt.fail('C13:selected-entry-not-restored:' + label, 'selection %r, restored %r, exit 0' % (uniq, gone))
        for n in gone:
            loc = [l for (l, _, nn) in entries if nn == n][0]
            if scen.sub(after, loc) is None:
                return rt.fail('C13:restored-to-wrong-place:' + label, '%r is not at %r' % (n, loc))
        return rt.ok()


# ------------------------------------------------ free destinations whose parent directories are gone, with options
FREE_LOCS = ['/v/p/q/deep/one', '/v/p/two', '/v/three']
FREE_REPLIES = [('0', [0]), ('0-2', [0, 1, 2]), ('1,2', [1, 2]), ('2', [2]), ('2,0', [2, 0])]
FREE_OPTS = [[], ['--overwrite'], ['--sort', 'path'], ['--overwrite', '--sort', 'date']]


def _free(kind, reply, opt, parents):
    """no destination exists: every valid selection must be restored completely whatever the options, whether the
    parent directories of the original locations still exist (parents=1) or are gone (0)"""
    with rt.untraced():
        rt.begin(('free', K.KINDS[kind], FREE_REPLIES[reply][0], FREE_OPTS[opt], parents))
        nodes = [W.d('/h'), W.d('/v/w'), W.f('/v/keep', 'KEEP', 0o644, 800)] + K.sentinels('/v/out')
        if parents:
            nodes += [W.d('/v/p/q/deep'), W.d('/v/p')]
        td = '/v/.Trash-1000'
        for j, loc in enumerate(FREE_LOCS):
            # (the third entry carries an ABSOLUTE Path although it lives in a $topdir trash directory: allowed by the spec)
            nodes += K.trashed(td, 'f%d' % j, K.quote(loc if j == 2 else loc[len('/v/'):]), '2020-01-0%dT00:00:00' % (j + 1), K.KINDS[(kind + j) % 6], 2000 + 20 * j)
        world = W.W(mounts=K.MOUNTS, cwd='/v', nodes=nodes)
        rp, want = FREE_REPLIES[reply]
        m, res = scen.run_model(world, [{'snap': '/'}, C('restore', FREE_OPTS[opt] + ['/v'], scen.env(), stdin=[rp], cwd='/v/w'), {'snap': '/'}])
        before, r, after = res
        label = 'free-destinations:opts=%s:parents=%s' % ('+'.join(FREE_OPTS[opt]) or 'none', 'present' if parents else 'gone')
        if r['exc']:
            return rt.fail('C13:traceback:%s:%s' % (r['exc'].split(':')[0], label), r['exc'])
        lst = K.restore_listing(r['out'])
        if [p for (_, _, p) in lst] != FREE_LOCS:  # (date order == path order here)
            return rt.fail('C13:wrong-entries-offered:' + label, repr(lst))
        for j, loc in enumerate(FREE_LOCS):
            payload = scen.sub(before, td + '/files/f%d' % j)
            if j in want:
                if scen.sub(after, loc) != payload or scen.sub(after, td + '/files/f%d' % j) is not None or scen.sub(after, td + '/info/f%d.trashinfo' % j) is not None:
                    return rt.fail('C13:selected-entry-not-restored:' + label, 'index %d (%s) chosen by reply %r: at destination %r, still in trash %r; exit %r stderr %r' % (
                        j, loc, rp, scen.sub(after, loc) is not None, scen.sub(after, td + '/files/f%d' % j) is not None, r['exit'], r['err'][-200:]))
            else:
                if scen.sub(after, loc) is not None or scen.sub(after, td + '/files/f%d' % j) != payload:
                    return rt.fail('C13:unselected-entry-restored:' + label, 'index %d not chosen by %r' % (j, rp))
        if r['exit'] != 0:
            return rt.fail('C13:valid-selection-exit-nonzero:' + label, 'exit %r stderr %r' % (r['exit'], r['err'][-200:]))
        return rt.ok()


def _homevol(kind, reply, sort):
    """the volume that holds the home trash has trash directories of its own ($topdir/.Trash-$uid, written by the
    fallback of trash-put or by --trash-dir): their entries are offered like all others"""
    with rt.untraced():
        rt.begin(('home-volume', K.KINDS[kind], reply, sort))
        nodes = [W.d('/h'), W.d('/r/w'), W.f('/v/keep', 'KEEP', 0o644, 800)]
        nodes += K.trashed('/h/.local/share/Trash', 'a', '/r/w/a', '2020-01-01T00:00:00', K.KINDS[kind], 2000)
        nodes += K.trashed('/.Trash-1000', 'b', 'r/w/b', '2020-01-02T00:00:00', K.KINDS[(kind + 1) % 6], 2020)
        nodes += K.trashed('/v/.Trash-1000', 'c', 'w/c', '2020-01-03T00:00:00', 'file', 2040)
        rp, want = [('0-1', [0, 1]), ('1', [1]), ('0', [0])][reply]
        args = [['--sort', 'date'], ['--sort', 'path'], []][sort]
        m, res = scen.run_model(W.W(mounts=K.MOUNTS, cwd='/r/w', nodes=nodes), [{'snap': '/'}, C('restore', args, scen.env(), stdin=[rp], cwd='/r/w'), {'snap': '/'}])
        before, r, after = res
        label = 'home-volume-own-trash-dir'
        if r['exc']:
            return rt.fail('C13:traceback:%s:%s' % (r['exc'].split(':')[0], label), r['exc'])
        lst = K.restore_listing(r['out'])
        if [p for (_, _, p) in lst] != ['/r/w/a', '/r/w/b']:
            return rt.fail('C13:wrong-entries-offered:' + label, 'offered %r, expected /r/w/a (home trash) and /r/w/b (/.Trash-1000)' % (lst,))
        for j, (loc, td, n) in enumerate([('/r/w/a', '/h/.local/share/Trash', 'a'), ('/r/w/b', '/.Trash-1000', 'b')]):
            chosen = j in want
            if chosen != (scen.sub(after, loc) is not None) or chosen != (scen.sub(after, td + '/files/' + n) is None):
                return rt.fail('C13:selected-entry-not-restored:' + label if chosen else 'C13:unselected-entry-restored:' + label, 'index %d (%s), reply %r; exit %r stderr %r' % (j, loc, rp, r['exit'], r['err'][-200:]))
        return rt.ok()


LD_SPELL = [(['/v/home/docs'], '/'), (['docs'], '/v/home'), (['/v/home/docs/'], '/'), (['./docs'], '/v/home'), (['/v/data/docs'], '/'), (['../data/docs'], '/v/home')]


def _linkdir(spell, reply, sort):
    """the requested directory is a symbolic link to a directory (or the directory such a link points to): the entries
    offered are those RECORDED at or beneath the path as requested - the command compares recorded locations, it does
    not resolve the request"""
    with rt.untraced():
        argv, cwd = LD_SPELL[spell]
        rt.begin(('requested-dir-is-a-link', argv[0], cwd, reply, sort))
        nodes = [W.d('/h'), W.d('/v/data/docs'), W.d('/v/home'), W.l('/v/home/docs', '../data/docs', 900), W.f('/v/keep', 'KEEP', 0o644, 800)]
        td = '/v/.Trash-1000'
        nodes += K.trashed(td, 'report', 'home/docs/report', '2020-01-02T03:04:05', 'file', 2000)
        nodes += K.trashed(td, 'other', 'data/docs/other', '2020-01-01T00:00:00', 'file', 2020)
        via_link = not argv[0].lstrip('./').startswith(('v/data', 'data'))
        mine, not_mine = ('report', 'other') if via_link else ('other', 'report')
        loc = {'report': '/v/home/docs/report', 'other': '/v/data/docs/other'}
        rp = ['0', ''][reply]
        args = [['--sort', 'date'], ['--sort', 'path'], []][sort]
        m, res = scen.run_model(W.W(mounts=K.MOUNTS, cwd=cwd, nodes=nodes), [{'snap': '/'}, C('restore', args + argv, scen.env(), stdin=[rp], cwd=cwd), {'snap': '/'}])
        before, r, after = res
        label = 'requested-dir-%s:%s' % ('is-a-link' if via_link else 'is-the-target-of-a-link', argv[0])
        if r['exc']:
            return rt.fail('C13:traceback:%s:%s' % (r['exc'].split(':')[0], label), r['exc'])
        lst = K.restore_listing(r['out'])
        if [p for (_, _, p) in lst] != [loc[mine]]:
            return rt.fail('C13:wrong-entries-offered:' + label, 'offered %r, expected exactly %r (recorded beneath the requested path)' % (lst, loc[mine]))
        if scen.sub(after, td + '/files/' + not_mine) is None or scen.sub(after, td + '/info/' + not_mine + '.trashinfo') is None:
            return rt.fail('C13:unselected-entry-restored:' + label, '%s left the trash' % not_mine)
        restored = scen.sub(after, '/v/data/docs/' + mine) is not None
        if (rp == '0') != restored or (rp == '0') != (scen.sub(after, td + '/files/' + mine) is None):
            return rt.fail('C13:selected-entry-not-restored:' + label if rp == '0' else 'C13:unselected-entry-restored:' + label,
                           'reply %r; %s restored: %r; exit %r stderr %r' % (rp, mine, restored, r['exit'], r['err'][-200:]))
        return rt.ok()


def w_linkdir(spell: int, reply: int, sort: int) -> str:
    """
    pre: 0 <= spell < 6 and 0 <= reply < 2 and 0 <= sort < 3
    post: _ == ''
    """
    return _linkdir(rt.sel(spell, 6), rt.sel(reply, 2), rt.sel(sort, 3))


UNDATED = ['no-date-line', 'fractional-seconds-and-Z', 'invalid-date', 'both-dated']


def _dupundated(sort, reply, und, order):
    """a path trashed twice, one of the two records without a usable DeletionDate, plus a third entry: every --sort mode
    lists all three, numbered from 0, and the reply restores exactly the entry printed at that index"""
    with rt.untraced():
        rt.begin(('same-path-twice-one-undated', SORTS[sort], reply, UNDATED[und], order))
        td = '/v/.Trash-1000'
        tail = {'no-date-line': '', 'fractional-seconds-and-Z': 'DeletionDate=2024-03-02T11:30:00.250Z\n', 'invalid-date': 'DeletionDate=2020-02-30T00:00:00\n',
                'both-dated': 'DeletionDate=2020-01-04T00:00:00\n'}[UNDATED[und]]
        ents = [('n1', '[Trash Info]\nPath=a/n\nDeletionDate=2020-01-02T00:00:00\n', 'FIRST'), ('n2', '[Trash Info]\nPath=a/n\n' + tail, 'SECOND'),
                ('z', '[Trash Info]\nPath=a/z\nDeletionDate=2020-01-03T00:00:00\n', 'THIRD')]
        if order:
            ents = [ents[1], ents[0], ents[2]]
        nodes = [W.d('/h'), W.d('/v/a'), W.f('/v/keep', 'KEEP', 0o644, 800)]
        for j, (nm, text, data) in enumerate(ents):
            nodes += [W.d(td, 0o700), W.d(td + '/files', 0o700), W.d(td + '/info', 0o700), W.f(td + '/files/' + nm, data, 0o644, 2000 + j),
                      W.f(td + '/info/' + nm + '.trashinfo', text, 0o600, 2010 + j)]
        args = (['--sort', SORTS[sort]] if SORTS[sort] else [])
        rp = ['0', '1', '2', ''][reply]
        m, res = scen.run_model(W.W(mounts=K.MOUNTS, cwd='/v/a', nodes=nodes), [{'snap': '/'}, C('restore', args, scen.env(), stdin=[rp], cwd='/v/a'), {'snap': '/'}])
        before, r, after = res
        label = 'same-path-twice:%s:sort=%s' % (UNDATED[und], SORTS[sort])
        if r['exc']:
            return rt.fail('C13:traceback:%s:%s' % (r['exc'].split(':')[0], label), r['exc'])
        lst = K.restore_listing(r['out'])
        if sorted(p_ for (_, _, p_) in lst) != ['/v/a/n', '/v/a/n', '/v/a/z'] or [i for (i, _, _) in lst] != [0, 1, 2]:
            return rt.fail('C13:wrong-entries-offered:' + label, 'offered %r' % (lst,))
        gone = sorted(nm for (nm, _, _) in ents if scen.sub(after, td + '/files/' + nm) is None)
        if rp == '':
            if gone or after != before:
                return rt.fail('C13:unselected-entry-restored:' + label, 'empty reply, yet %r left the trash' % gone)
            return rt.ok()
        _, d, p_ = lst[int(rp)]
        if p_ == '/v/a/z':
            want = 'z'
        else:
            want = 'n1' if d == '2020-01-02 00:00:00' else 'n2'
        if gone != [want]:
            return rt.fail('C13:selected-entry-not-restored:' + label, 'reply %s designates %s (%s %s); left the trash: %r; exit %r stderr %r' % (rp, want, d, p_, gone, r['exit'], r['err'][-200:]))
        data = {nm: dt for (nm, _, dt) in ents}[want]
        got = scen.sub(after, p_)
        if got is None or got[2] != data.encode():
            return rt.fail('C13:selected-entry-not-restored:' + label, 'content at %s is %r, expected %r' % (p_, got, data))
        return rt.ok()


def w_dupundated(sort: int, reply: int, und: int, order: bool) -> str:
    """
    pre: 0 <= sort < 4 and 0 <= reply < 4 and 0 <= und < 4
    post: _ == ''
    """
    return _dupundated(rt.sel(sort, 4), rt.sel(reply, 4), rt.sel(und, 4), rt.selb(order))


def w_homevol(kind: int, reply: int, sort: int) -> str:
    """
    pre: 0 <= kind < 6 and 0 <= reply < 3 and 0 <= sort < 3
    post: _ == ''
    """
    return _homevol(rt.sel(kind, 6), rt.sel(reply, 3), rt.sel(sort, 3))


def w_free(kind: int, reply: int, opt: int, parents: int) -> str:
    """
    pre: 0 <= kind < 6 and 0 <= reply < 5 and 0 <= opt < 4 and 0 <= parents < 2
    post: _ == ''
    """
    return _free(rt.sel(kind, 6), rt.sel(reply, 5), rt.sel(opt, 4), rt.sel(parents, 2))


def w_main(eset: int, pa: int, sort: int, reply: int) -> str:
    """
    pre: PARTITION is None or pa == PARTITION
    pre: 0 <= eset < 7 and 0 <= pa < 9 and 0 <= sort < 4 and 0 <= reply < 19
    post: _ == ''
    """
    return _case(rt.sel(eset, 7), rt.sel(pa, 9), rt.sel(sort, 4), rt.sel(reply, 19))


def _prefix_parts(plen, maxlen):
    import itertools
    parts = [('short', plen, maxlen)] if plen > 1 else []
    for tup in itertools.product(ALPHABET, repeat=plen):
        parts.append(('prefix', ''.join(tup), maxlen))
    return parts


def obligations(tier):
    t = 300 if tier == 'quick' else 600
    gparts = _prefix_parts(1, 3) if tier == 'quick' else _prefix_parts(2, 4)
    sparts = [('short', 3, 2)] if tier == 'quick' else _prefix_parts(1, 3)
    return kpair.obligations(tier) + [
        CH('W_same_path_twice_one_record_undated', MOD, 'w_dupundated', timeout=300, engine='W', regime='selector', encodes=K.RESTORE_FUNCS + ['trashcli.restore.sort_method.sorter_for'], stubs=K.STUBS,
           bounds='a path trashed twice (one record dated, the other without date / with fractional seconds and Z / invalid / dated) plus a third entry x 4 sort modes x replies 0 1 2 and empty x either directory order'),
        CH('W_requested_directory_is_a_symbolic_link', MOD, 'w_linkdir', timeout=300, engine='W', regime='selector', encodes=K.RESTORE_FUNCS, stubs=K.STUBS,
           bounds='the requested directory is a symbolic link to a directory, or the directory it points to: 6 spellings (absolute, relative, trailing slash) x reply 0 / none x 3 sort modes'),
        CH('W_trash_dirs_of_the_home_volume', MOD, 'w_homevol', timeout=300, engine='W', regime='selector', encodes=K.RESTORE_FUNCS, stubs=K.STUBS,
           bounds='entries in the home trash, in /.Trash-$uid of the same volume and on another volume; 6 kinds x 3 replies x 3 sort modes'),
        CH('W_free_destinations_x_options_x_parents', MOD, 'w_free', timeout=600, engine='W', regime='selector', encodes=K.RESTORE_FUNCS, stubs=K.STUBS,
           bounds='3 entries with free destinations (6 kind rotations) x 5 valid replies x 4 option sets (--overwrite, --sort) x parent directories present / gone'),
        CH('K_grammar_all_replies', MOD, 'k_grammar', timeout=t, partitions=gparts, twin=(tier == 'quick'),
           engine='K', regime='traced',
           encodes=['parse_indexes', 'parse_int_index', 'Range.__iter__', 'Sequences.all_indexes'],
           bounds='reply: any string over the alphabet "0-9 - , space + x", 1 <= len <= %d; 1 <= n <= 6; '
                  'partitioned by prefix' % gparts[-1][2],
           outside='longer replies; characters outside the alphabet (other Unicode digits, underscores)'),
        CH('K_scope_all_strings', MOD, 'k_scope', timeout=120, engine='K', regime='traced',
           encodes=['TrashedFile.original_location_matches_path'], bounds='location len<=5, requested path len<=4, absolute'),
        CH('K_select_nothing_on_reject', MOD, 'k_select', timeout=t if tier == 'quick' else 1200, partitions=sparts, engine='K', regime='traced',
           encodes=['RestoreAskingTheUser.restore_asking_the_user', 'trashed_files_to_restore', 'restore_selected_files', 'compose/Either'],
           bounds='reply over the alphabet, len<=%d; n<=4; restorer replaced by a recorder' % sparts[-1][2], stubs=['Restorer -> recorder']),
        CH('W_listing_and_selection', MOD, 'w_main', timeout=900, partitions=list(range(9)), engine='W',
           regime='selector', encodes=K.RESTORE_FUNCS, stubs=K.STUBS,
           bounds='7 entry sets x 9 (cwd, path argument) x 4 sort modes x 19 replies'),
    ]

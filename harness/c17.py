"""C17 -- under file-system errors trash-put terminates, falls back, and reports honestly."""
import errno

from vf import rt, scen, world as W
from vf.commands import C
from vf.runner import CH
from harness import common as K
from harness import c01

PARTITION = None
MOD = 'harness.c17'
KMAX = 300
META = {
    'level': 'fault_enumeration',
    'rule': 'a case = (entry kind, candidate layout, index k of the faulted system call, errno[, second fault | persistent]); '
            'chosen by the solver as symbolic selectors, each executed through the real trash-put main() on the PosixModel; '
            'non-trivial = the fault was actually injected (k below the length of the run)',
    'explanation': 'Bounded symbolic checking with CrossHair/z3: fault (k, errno) pairs are solver variables; the injected '
                   'OSError reaches the real trash-cli code (and CPython shutil/os.makedirs re-executed over the model); '
                   'oracle: termination within a step budget, then the C01 snapshot predicate and honest exit status.',
    'assumptions': ['one errno per faulted call; errors come only from the injector (the model has no permission checks)',
                    'PosixModel fidelity'],
}

ERRNOS = [errno.EACCES, errno.EPERM, errno.EROFS, errno.ENOSPC, errno.EIO, errno.ENAMETOOLONG, errno.ENOENT, errno.EEXIST,
          errno.ENOTDIR, errno.EDQUOT]
LAYOUTS = ['alt-first-use', 'top-sticky', 'home', 'alt-existing', 'top-sticky-and-alt', 'collision']
# (the fault-index obligations use the first six; the one-cause obligation adds the cross-volume home fallback)
LAYOUTS_D = LAYOUTS + ['fallback-cross-volume', 'home-trash-is-a-link-to-another-volume']


VERBOSE = [0]   # set by the -vv obligation around a case (the diagnostics printed on the way must not change the outcome)
FORCE = [False]  # set by the -f obligations around a case (the option must not turn a failure into a silent success)


def scenario(kind, layout):
    l = LAYOUTS_D[layout]
    nodes = [W.d('/h'), W.d('/v/d'), W.d('/h/w'), W.f('/v/keep', 'KEEP', 0o644, 800)] + K.sentinels('/v/out')
    src = '/v/d/x'
    if l == 'top-sticky':
        nodes.append(W.d('/v/.Trash', 0o1777))
    elif l == 'home':
        src = '/h/w/x'
    elif l == 'alt-existing':
        nodes += [W.d('/v/.Trash-1000/files', 0o700), W.d('/v/.Trash-1000/info', 0o700)]
    elif l == 'top-sticky-and-alt':
        nodes += [W.d('/v/.Trash', 0o1777), W.d('/v/.Trash/1000/files', 0o700), W.d('/v/.Trash/1000/info', 0o700),
                  W.d('/v/.Trash-1000/files', 0o700), W.d('/v/.Trash-1000/info', 0o700)]
    elif l == 'collision':
        nodes += K.trashed('/v/.Trash-1000', 'x', 'd/x', '2019-01-01T00:00:00', 'file', 2000)
    elif l == 'home-trash-is-a-link-to-another-volume':
        # ~/.local/share/Trash -> /v/bigdisk/Trash: for an entry of the home volume that directory is on ANOTHER volume
        # (no fallback asked for): it must be passed over, never copied into
        src = '/h/w/x'
        nodes += [W.d('/h/.local/share'), W.d('/v/bigdisk/Trash', 0o700), W.l('/h/.local/share/Trash', '/v/bigdisk/Trash', 905)]
    nodes += K.entry_nodes(kind, src, 1000)
    cwd = src.rsplit('/', 1)[0]
    args, e = [], scen.env()
    if l == 'fallback-cross-volume':
        nodes += [W.f('/v/.Trash', 'file', 0o644, 909), W.f('/v/.Trash-1000', 'file', 0o644, 910)]
        args = ['--home-fallback']
        e['TRASH_ENABLE_HOME_FALLBACK'] = '1'
    world = W.W(mounts=K.MOUNTS, cwd=cwd, nodes=nodes)
    return world, C('put', args + (['-f'] if FORCE[0] else []) + ['-v'] * VERBOSE[0] + ['--', 'x'], e, cwd=cwd, passwd=not VERBOSE[0]), src


def _run(kind, layout, faults, persistent, hook=None):
    world, step, src = scenario(kind, layout)
    m = W.build_model(world)
    m.max_ops = 8000
    before = m.snap('/')
    if hook is None:
        hook = scen.FaultHook(faults, persistent) if faults else None
    _, r = scen.run_model(None, [step], hook=hook, model=m)
    after = m.snap('/')
    return m, before, r[0], after, src, hook


def judge(kind, layout, faults, persistent, tag, hook=None):
    m, before, r, after, src, hook = _run(kind, layout, faults, persistent, hook)
    label = '%s:%s' % (K.KINDS[kind], LAYOUTS_D[layout])
    if r.get('nonterminating'):
        names = sorted(set(n for (_, n, _) in hook.injected))
        return rt.fail('C17:nonterminating:%s:%s' % (tag, '+'.join(names)),
                       'trash-put still running after %d system calls with faults %r (last ops %r)' % (m.nops, faults, m.oplog[-4:]))
    if not hook.injected:
        return rt.ok()
    if FORCE[0] and all(n in ('lstat', 'stat') for (_, n, _) in hook.injected):
        # outside the claim: with -f an argument whose lstat fails counts as nonexistent (os.path.lexists), silently
        return rt.ok()
    inj = '+'.join('%s=%s' % (n, errno.errorcode.get(e, e)) for (_, n, e) in hook.injected[:2])

    def opname(idx, n):
        # a failed lstat of a mount point is its own kind of fault: os.path.ismount answers False, the volume of the
        # argument is misjudged and a candidate on ANOTHER device is taken for one on the same device
        try:
            op = m.oplog[idx]
            if n == 'lstat' and len(op) > 1 and op[1] in ('/v', '/v/', '/'):
                return 'lstat-of-mount-point'
        except Exception:
            pass
        return n
    flabel = tag if tag.startswith('one-cause') else 'fault:' + '+'.join(opname(i, n) for (i, n, _) in hook.injected[:2])
    x = c01.oracle([before, r, after], 'x', src, 'entry', flabel)
    if x and x != 'twin-reached':
        key, _, detail = x.partition(' :: ')
        x = rt.fail(key.replace('C01:', 'C17:', 1), detail + ' [faults injected: %s; %s]' % (inj, label))
        if x and x != 'twin-reached':
            return x
    if r['exc']:
        return rt.fail('C17:traceback:%s:fault:%s' % (r['exc'].split(':')[0], '+'.join(opname(i, n) for (i, n, _) in hook.injected[:2])),
                       '%s [faults injected: %s; %s]' % (r['exc'], inj, label))
    trashed = scen.sub(after, src) is None
    if trashed and r['exit'] != 0:
        return rt.fail('C17:trashed-but-failure-reported:' + label, inj)
    if not trashed and r['exit'] == 0:
        return rt.fail('C17:not-trashed-but-exit-0:' + label, inj)
    if not trashed and r['err'].strip() == '':
        return rt.fail('C17:failure-without-diagnostic:' + label, inj)
    return rt.ok()


def _single(kind, layout, k, e):
    with rt.untraced():
        if run_length(kind, layout) >= 72:
            return rt.fail('C17:bound-too-small', 'an unfaulted run makes %d system calls; fault indices only range over 0..71' % run_length(kind, layout))
        rt.begin((K.KINDS[kind], LAYOUTS[layout], k, errno.errorcode[ERRNOS[e]]))
        return judge(kind, layout, {k: ERRNOS[e]}, False, 'single')


def _single_f(kind, layout, k, e):
    FORCE[0] = True
    try:
        return _single(kind, layout, k, e)
    finally:
        FORCE[0] = False


def _persistent(kind, layout, k, e):
    with rt.untraced():
        rt.begin((K.KINDS[kind], LAYOUTS[layout], k, errno.errorcode[ERRNOS[e]], 'persistent'))
        return judge(kind, layout, {k: ERRNOS[e]}, True, 'persistent')


def _pair(kind, layout, k1, e1, dk, e2):
    with rt.untraced():
        rt.begin((K.KINDS[kind], LAYOUTS[layout], k1, errno.errorcode[ERRNOS[e1]], k1 + 1 + dk, errno.errorcode[ERRNOS[e2]]))
        return judge(kind, layout, {k1: ERRNOS[e1], k1 + 1 + dk: ERRNOS[e2]}, False, 'pair')


# one cause, many faulted calls: a directory (or a whole volume) that cannot be modified
DIRS = ['SRC-PARENT', 'SRC', '/v', '/v/.Trash', '/v/.Trash/1000', '/v/.Trash/1000/files', '/v/.Trash/1000/info', '/v/.Trash-1000',
        '/v/.Trash-1000/files', '/v/.Trash-1000/info', '/h/.local/share/Trash', '/h/.local/share/Trash/files', '/h/.local/share/Trash/info',
        'VOLUME:/v', 'VOLUME:/', '/h/.local/share', '/h']
DIR_ERRNOS = [errno.EACCES, errno.EROFS, errno.ENOSPC]


def _dirfault(kind, layout, dsel, e):
    with rt.untraced():
        world, step, src = scenario(kind, layout)
        d = DIRS[dsel]
        rt.begin((K.KINDS[kind], LAYOUTS_D[layout], d, errno.errorcode[DIR_ERRNOS[e]]))
        if d == 'SRC-PARENT':
            hook = scen.DirFaultHook(src.rsplit('/', 1)[0], DIR_ERRNOS[e])
        elif d == 'SRC':
            hook = scen.DirFaultHook(src, DIR_ERRNOS[e])
        elif d.startswith('VOLUME:'):
            hook = scen.DirFaultHook(None, DIR_ERRNOS[e], volume=d[len('VOLUME:'):])
        else:
            hook = scen.DirFaultHook(d, DIR_ERRNOS[e])
        return judge(kind, layout, None, False, 'one-cause:%s:%s' % (LAYOUTS_D[layout], d), hook)


def w_dirfault(kind: int, layout: int, dsel: int, e: int) -> str:
    """
    pre: PARTITION is None or layout == PARTITION
    pre: 0 <= kind < 6 and 0 <= layout < 8 and 0 <= dsel < 17 and 0 <= e < 3
    post: _ == ''
    """
    return _dirfault(rt.sel(kind, 6), rt.sel(layout, 8), rt.sel(dsel, 17), rt.sel(e, 3))


FAR_ERRNOS = [errno.EACCES, errno.EROFS, errno.ENOSPC]


def _farpair(kind, layout, k1, k2, e):
    with rt.untraced():
        rt.begin((K.KINDS[kind], LAYOUTS[layout], k1, k2, errno.errorcode[FAR_ERRNOS[e]]))
        return judge(kind, layout, {k1: FAR_ERRNOS[e], k2: FAR_ERRNOS[e]}, False, 'far-pair')


def w_farpair(kind: int, layout: int, k1: int, k2: int, e: int) -> str:
    """
    pre: PARTITION is None or (kind == PARTITION[0] and layout == PARTITION[1])
    pre: 0 <= kind < 6 and 0 <= layout < 6 and 0 <= k1 < 72 and 0 <= k2 < 72 and k1 < k2 and 0 <= e < 3
    post: _ == ''
    """
    return _farpair(rt.sel(kind, 6), rt.sel(layout, 6), rt.sel(k1, 72), rt.sel(k2, 72), rt.sel(e, 3))


_LEN = {}


def run_length(kind, layout):
    if (kind, layout) not in _LEN:
        _LEN[(kind, layout)] = _run(kind, layout, None, False)[0].nops
    return _LEN[(kind, layout)]


def w_single(kind: int, layout: int, k: int, e: int) -> str:
    """
    pre: PARTITION is None or (kind == PARTITION[0] and layout == PARTITION[1])
    pre: 0 <= kind < 6 and 0 <= layout < 6 and 0 <= k < 72 and 0 <= e < 10
    post: _ == ''
    """
    return _single(rt.sel(kind, 6), rt.sel(layout, 6), rt.sel(k, 72), rt.sel(e, 10))


def _single_vv(kind, layout, k, e):
    VERBOSE[0] = 2
    try:
        return _single(kind, layout, k, e)
    finally:
        VERBOSE[0] = 0


def w_single_vv(kind: int, layout: int, k: int, e: int) -> str:
    """
    pre: PARTITION is None or (kind == PARTITION[0] and layout == PARTITION[1])
    pre: 0 <= kind < 6 and 0 <= layout < 6 and 0 <= k < 72 and 0 <= e < 10
    post: _ == ''
    """
    return _single_vv(rt.sel(kind, 6), rt.sel(layout, 6), rt.sel(k, 72), rt.sel(e, 10))


def w_single_f(kind: int, layout: int, k: int, e: int) -> str:
    """
    pre: PARTITION is None or (kind == PARTITION[0] and layout == PARTITION[1])
    pre: 0 <= kind < 6 and 0 <= layout < 6 and 0 <= k < 72 and 0 <= e < 10
    post: _ == ''
    """
    return _single_f(rt.sel(kind, 6), rt.sel(layout, 6), rt.sel(k, 72), rt.sel(e, 10))


def w_persistent(kind: int, layout: int, k: int, e: int) -> str:
    """
    pre: PARTITION is None or (kind == PARTITION[0] and layout == PARTITION[1])
    pre: 0 <= kind < 6 and 0 <= layout < 6 and 0 <= k < 72 and 0 <= e < 10
    post: _ == ''
    """
    return _persistent(rt.sel(kind, 6), rt.sel(layout, 6), rt.sel(k, 72), rt.sel(e, 10))


def w_pair(kind: int, layout: int, k1: int, e1: int, dk: int, e2: int) -> str:
    """
    pre: PARTITION is None or (kind == PARTITION[0] and layout == PARTITION[1])
    pre: 0 <= kind < 6 and 0 <= layout < 6 and 0 <= k1 < 64 and 0 <= e1 < 4 and 0 <= dk < 6 and 0 <= e2 < 4
    post: _ == ''
    """
    return _pair(rt.sel(kind, 6), rt.sel(layout, 6), rt.sel(k1, 64), rt.of([0, 3, 4, 5], e1), rt.sel(dk, 6), rt.of([0, 3, 4, 7], e2))


def obligations(tier):
    enc = K.PUT_FUNCS + ['shutil.move/copy2/copytree/rmtree, os.makedirs (CPython source over the model)']
    if tier == 'quick':
        parts = [(k, l) for k in (0, 2, 3) for l in range(6)]
    else:
        parts = [(k, l) for k in range(6) for l in range(6)]
    obs = [
        CH('W_single_fault', MOD, 'w_single', timeout=1800, partitions=parts, engine='W', regime='selector', encodes=enc,
           stubs=K.STUBS, bounds='fault index k in 0..71 (runs are shorter: indices beyond the run inject nothing) x 10 errnos x '
                                 '%d kinds x 6 candidate layouts' % len(set(p[0] for p in parts))),
        CH('W_single_fault_with_force_option', MOD, 'w_single_f', timeout=1800, partitions=[(k, l) for k in (0, 2, 5) for l in range(6)], engine='W', regime='selector', encodes=enc,
           stubs=K.STUBS, bounds='trash-put -f: fault index k in 0..71 x 10 errnos (incl. ENOENT) x 3 kinds (file, directory, dangling link) x 6 layouts'),
        CH('W_single_fault_with_debug_output', MOD, 'w_single_vv', timeout=1800, partitions=[(k, l) for k in (0, 5) for l in range(6)], engine='W', regime='selector', encodes=enc + ['MyLogger / StreamBackend (-vv)'],
           stubs=K.STUBS, bounds='trash-put -vv: fault index k in 0..71 x 10 errnos x 2 kinds (file, dangling link) x 6 layouts; the debug lines (resolved lazily) must not change the outcome; no uid or gid has an entry in the password / group database'),
        CH('W_persistent_fault', MOD, 'w_persistent', timeout=1800, partitions=parts, engine='W', regime='selector', encodes=enc,
           stubs=K.STUBS, bounds='same space; after the first injection every later call of the same kind in the same directory fails too'),
    ]
    obs.append(CH('W_one_cause_directory_not_modifiable', MOD, 'w_dirfault', timeout=1800, partitions=list(range(8)), engine='W', regime='selector', encodes=enc,
                  stubs=K.STUBS + ['every system call adding / removing / renaming an entry of directory D (or of any directory of a volume) fails with one errno; rename across devices answers EXDEV first, as Linux does'],
                  bounds='17 directories D (parent of the source, the source, volume root, .Trash, $uid, files, info, .Trash-$uid, files, info, home trash, files, info, whole volume /v, whole volume /, ~/.local/share, ~) '
                         'x {EACCES, EROFS, ENOSPC} x 6 kinds x 8 layouts (incl. the cross-volume home fallback, and a home trash that is a symbolic link to another volume): arbitrarily many faulted calls with one cause'))
    if tier == 'thorough':
        obs.append(CH('W_fault_pairs_far_apart', MOD, 'w_farpair', timeout=7000, partitions=[(k, l) for k in (0, 2, 3) for l in range(6)], twin=False, engine='W', regime='selector',
                      encodes=enc, stubs=K.STUBS, bounds='pairs k1<k2<72 of faulted calls with the same errno from {EACCES, EROFS, ENOSPC}; 3 kinds x 6 layouts'))
        obs.append(CH('W_fault_pairs', MOD, 'w_pair', timeout=7000, partitions=[(k, l) for k in (0, 2, 3) for l in range(6)], twin=False, engine='W', regime='selector',
                      encodes=enc, stubs=K.STUBS, bounds='pairs (k1,e1),(k1+1+dk,e2): k1<64, dk<6, e1 in {EACCES,ENOSPC,EIO,ENAMETOOLONG}, e2 in {EACCES,ENOSPC,EIO,EEXIST}; 3 kinds x 6 layouts'))
    return obs

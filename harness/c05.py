"""C05 -- killing trash-put at any instant loses nothing and leaves no orphan payload."""
from vf import rt, scen, world as W
from vf.commands import C
from vf.runner import CH
from harness import common as K

PARTITION = None
MOD = 'harness.c05'
KMAX = 400
META = {
    'level': 'model_checking',
    'explanation': 'Bounded symbolic checking with CrossHair/z3: the real trash-put main() on the PosixModel with a crash '
                   'hook; the crash point k (index of the system call before which the process disappears) and the '
                   'configuration selectors are solver variables. Because CPython shutil.move/copytree/rmtree and '
                   'os.makedirs are re-executed over the modelled syscalls, k also falls between the steps of a '
                   'cross-volume copy+delete. The invariant is evaluated on the model state at the crash instant. '
                   'states = distinct (configuration, k) explored; transitions = system calls executed.',
    'assumptions': ['crash = fail-stop between two system calls, or a KeyboardInterrupt raised instead of / right after a system call (handlers run); each syscall atomic; a single os.write of the info '
                    'content is atomic (torn writes and power-loss reordering are outside)', 'PosixModel fidelity'],
}

CONFIGS = ['first-use-alt', 'existing-alt', 'top-sticky-first-use', 'collision-1', 'collision-2', 'home-same-volume',
           'fallback-cross-volume', 'fallback-cross-volume-existing', 'trash-dir-opt', 'orphan-in-the-way', 'dot-trashinfo-name',
           'long-name', 'mount-point-named-relatively+fallback', 'mount-point-with-trailing-slash+fallback']
NCFG = len(CONFIGS)


def scenario(kind, cfg):
    c = CONFIGS[cfg]
    nodes = [W.d('/h'), W.d('/v/d'), W.f('/v/keep', 'KEEP', 0o644, 800)] + K.sentinels('/v/out')
    src = '/v/d/x'
    args = []
    e = scen.env()
    if c == 'existing-alt':
        nodes += [W.d('/v/.Trash-1000/files', 0o700), W.d('/v/.Trash-1000/info', 0o700)]
    elif c == 'top-sticky-first-use':
        nodes.append(W.d('/v/.Trash', 0o1777))
    elif c == 'collision-1':
        nodes += K.trashed('/v/.Trash-1000', 'x', 'd/x', '2019-01-01T00:00:00', 'file', 2000)
    elif c == 'collision-2':
        nodes += K.trashed('/v/.Trash-1000', 'x', 'd/x', '2019-01-01T00:00:00', 'file', 2000)
        nodes += K.trashed('/v/.Trash-1000', 'x_1', 'd/x', '2019-01-02T00:00:00', 'dir', 2020)
    elif c == 'home-same-volume':
        src = '/h/w/x'
        nodes.append(W.d('/h/w'))
    elif c in ('fallback-cross-volume', 'fallback-cross-volume-existing'):
        # both volume candidates unusable -> the home trash on another volume via copy+delete
        nodes += [W.f('/v/.Trash', 'file', 0o644, 909), W.f('/v/.Trash-1000', 'file', 0o644, 910)]
        args = ['--home-fallback']
        e['TRASH_ENABLE_HOME_FALLBACK'] = '1'
        if c.endswith('existing'):
            nodes += K.trashed('/h/.local/share/Trash', 'x', '/v/d/x', '2019-01-01T00:00:00', 'file', 2000)
    elif c == 'trash-dir-opt':
        args = ['--trash-dir', '/v/custom']
    elif c == 'orphan-in-the-way':
        nodes += [W.d('/v/.Trash-1000/info', 0o700), W.f('/v/.Trash-1000/files/x', 'ORPHAN', 0o644, 2300)]
    name = 'x'
    if c == 'dot-trashinfo-name':
        name = 'holiday.trashinfo'
        nodes += K.trashed('/v/.Trash-1000', 'holiday', 'd/holiday', '2019-01-01T00:00:00', 'file', 2000)
    elif c == 'long-name':
        name = 'L' * 250
    src = src[:-1] + name
    if c.startswith('mount-point'):
        # the entry is a directory another volume is mounted on (whatever `kind` says); trash-put must refuse it however
        # it is spelled - with the home fallback enabled a copy+delete of the whole volume would otherwise start
        args = ['--home-fallback']
        e['TRASH_ENABLE_HOME_FALLBACK'] = '1'
        nodes += [W.f(src + '/on-the-volume', 'DATA', 0o644, 1000), W.d(src + '/sub'), W.f(src + '/sub/deep', 'DEEP', 0o600, 1001)]
        world = W.W(mounts=K.MOUNTS + [src], cwd='/v/d', nodes=nodes)
        return world, C('put', args + ['--', 'x/' if 'slash' in c else 'x'], e, cwd='/v/d'), src
    nodes += K.entry_nodes(kind, src, 1000)
    world = W.W(mounts=K.MOUNTS, cwd=src.rsplit('/', 1)[0], nodes=nodes)
    step = C('put', args + ['--', name], e, cwd=src.rsplit('/', 1)[0])
    return world, step, src


def info_complete(data):
    ok, p, d = scen.spec_parse_info(data)
    return ok


def same_payload(a, b):
    """equal snapshots; a top-level symlink re-created by a cross-device shutil.move keeps its target but
    not its mtime (that loss is C01's concern, not a crash-consistency one)"""
    if a == b:
        return True
    return a is not None and b is not None and a[0] == 'l' and b[0] == 'l' and a[1] == b[1]


def check_state(before, after, src, label):
    payload = scen.sub(before, src)
    src_complete = scen.sub(after, src) == payload
    # every node directly under a files/ dir needs a complete info
    copies = []
    for td in ('/v/.Trash-1000', '/v/.Trash/1000', '/h/.local/share/Trash', '/v/custom'):
        ents = scen.trash_entries(after, td)
        old = scen.trash_entries(before, td)
        for name, (info, pl) in ents.items():
            if pl is not None:
                if name in old and old[name] == (info, pl):
                    continue  # pre-existing, untouched (incl. a pre-existing orphan)
                if name in old and old[name][1] is not None and old[name][1] != pl:
                    return rt.fail('C05:existing-payload-modified:' + label, '%s/files/%s changed' % (td, name))
                if info is None or not isinstance(info, bytes) or not info_complete(info):
                    return rt.fail('C05:orphan-payload:' + label, 'payload %s/files/%s present, its .trashinfo is %s' % (
                        td, name, 'missing' if info is None else 'incomplete: %r' % (info,)))
                if same_payload(pl, payload):
                    copies.append(td + '/files/' + name)
        for name, (info, pl) in old.items():
            if ents.get(name) != (info, pl) and (info is not None and pl is not None):
                return rt.fail('C05:existing-entry-damaged:' + label, '%s/%s' % (td, name))
    if not src_complete and not copies:
        return rt.fail('C05:entry-lost-or-split:' + label, 'source complete: %r; complete copies in trash: %r; source now %r' % (
            src_complete, copies, scen.sub(after, src)))
    return ''


MODES = ['kill', 'sigint-before-syscall', 'sigint-after-syscall', 'sigterm-before-syscall', 'sigterm-after-syscall', 'sighup-after-syscall']
NMODE = len(MODES)
_KB = {}


def kbound(cfg):
    """1 + the length (in system calls) of the longest undisturbed run of this configuration over the 6 entry
    kinds, measured on the current code: crash points beyond it do not exist"""
    if cfg is None:
        return KMAX
    if cfg not in _KB:
        with rt.untraced():
            n = 0
            for kind in range(6):
                world, step, src = scenario(kind, cfg)
                m = W.build_model(world)
                _, r0 = scen.run_model(None, [step], model=m)
                n = max(n, r0[0]['ops'])
            _KB[cfg] = n + 1
    return _KB[cfg]


def _case(kind, cfg, k, mode=0):
    with rt.untraced():
        world, step, src = scenario(kind, cfg)
        label = '%s:%s' % (K.KINDS[kind], CONFIGS[cfg])
        m = W.build_model(world)
        before = m.snap('/')
        # length of the uncrashed run
        probe = m.clone()
        _, r0 = scen.run_model(None, [step], model=probe)
        n = r0[0]['ops']
        if n >= kbound(cfg) or n >= KMAX:
            return rt.fail('C05:bound-too-small', 'run of %d system calls reaches the bound %d' % (n, min(kbound(cfg), KMAX)))
        if k > n or (mode and k == n):
            rt.begin()
            return rt.ok()  # no crash happens: same as k == n
        rt.begin((K.KINDS[kind], CONFIGS[cfg], k, n, MODES[mode]))
        if mode == 0:
            hook = scen.CrashHook(k)
        elif mode <= 2:
            hook = scen.InterruptHook(k, after=(mode == 2))
        else:  # SIGTERM / SIGHUP: whatever handler the command installed runs; without one the process is killed
            hook = scen.SignalHook(k, 1 if mode == 5 else 15, after=(mode != 3))
        _, r = scen.run_model(None, [step], hook=hook, model=m)
        after = m.snap('/')
        # (a process that received SIGINT may well die with a traceback: that is still 'killed')
        ended = 'completed' if not (r[0].get('crashed') or r[0].get('interrupted') or mode) else ''
        x = check_state(before, after, src, label + (':' + ended if ended else '') + (':' + MODES[mode] if mode else ''))
        if x:
            return x + ' [%s, syscall %d of %d: %r]' % (MODES[mode], k, n, m.oplog[-3:])
        return rt.ok()


def w_crash(kind: int, cfg: int, k: int, mode: int) -> str:
    """
    pre: PARTITION is None or (cfg == PARTITION[0] and mode == PARTITION[1])
    pre: 0 <= kind < 6 and 0 <= cfg < NCFG and 0 <= k < kbound(None if PARTITION is None else PARTITION[0]) and 0 <= mode < NMODE
    post: _ == ''
    """
    return _case(rt.sel(kind, 6), rt.sel(cfg, NCFG), rt.sel(k, kbound(None if PARTITION is None else PARTITION[0])), rt.sel(mode, NMODE))


def obligations(tier):
    from harness import kpair
    return kpair.obligations(tier) + [CH('W_crash_point_x_kind_x_config', MOD, 'w_crash', timeout=2400, partitions=[(c, md) for c in range(NCFG) for md in range(NMODE)], engine='W',
               regime='selector', encodes=K.PUT_FUNCS + ['shutil.move/copytree/copy2/rmtree, os.makedirs (CPython source over the model)'],
               stubs=K.STUBS + ['SIGKILL -> sticky BaseException at the k-th system call', 'SIGINT -> one KeyboardInterrupt instead of / right after the k-th system call',
                      'SIGTERM / SIGHUP -> the handler the command installed with signal.signal (recorded) runs at that point; none installed: killed'],
               bounds='crash point k in 0..(longest undisturbed run of the configuration, measured) x 6 ways of dying (fail-stop; KeyboardInterrupt '
                      'delivered before / after the k-th system call, clean-up handlers run; SIGTERM before / after, SIGHUP after, with the handlers the command installs) x 6 kinds x 14 configurations '
                      '(first use, existing dir, sticky .Trash, 1-2 collisions, home, cross-volume fallback, --trash-dir, orphan in the way, a name ending in .trashinfo, a 250-byte name, a mount point named relatively / with a trailing slash while the home fallback is on)')]

"""C09 -- trash-list shows exactly what is in the trash after any history of commands."""
import datetime

from vf import rt, scen, world as W
from vf.commands import C
from vf.runner import CH
from harness import common as K
from harness.c12 import ref_glob

PARTITION = None
MOD = 'harness.c09'
META = {
    'level': 'model_checking',
    'explanation': 'Bounded symbolic checking with CrossHair/z3 over the real commands on the PosixModel. Inductive step: '
                   'from a symbolic well-formed pre-state (bag of up to 3 entries placed by symbolic selectors in home / '
                   '.Trash/uid / .Trash-uid with symbolic names, directories, dates) ONE command with symbolic arguments '
                   '(put / restore / rm / empty / empty DAYS) is run; the abstract bag transition is the oracle and '
                   'trash-list (real main()) must print exactly the bag, one line per element. Bounded histories: '
                   'sequences of 3 commands from an empty trash chosen by symbolic selectors, trash-list checked after '
                   'every step. states = distinct (pre-state, command) valuations explored, transitions = command runs.',
    'assumptions': ['PosixModel fidelity (./check MODEL)', 'representation invariant of the pre-state: every entry is a '
                    'complete pair (established by C01/C05/C15)', 'dates come from a clock stub advancing one day per command'],
}

DIRS = ['/v/d', '/v/e/deep', '/h/w']
NAMES = ['foo', 'bar', 'foo bar', 'b.o']
RM_PATTERNS = ['foo', '*d*', 'b*', '/v/d/*', '*', '*e*p/*', 'foo*', '/h/w/foo', '?v*', '*/foo']
TD_FOR = {'/v': ['/v/.Trash/1000', '/v/.Trash-1000'], '/h': ['/h/.local/share/Trash']}


class Bag(object):
    """abstract trash: list of (abs original path, date text 'YYYY-MM-DD hh:mm:ss')"""

    def __init__(self):
        self.items = []

    def lines(self):
        return sorted('%s %s' % (d, p) for (p, d) in self.items)


def fmt_date(day):
    return (datetime.datetime(2020, 1, 1) + datetime.timedelta(days=day)).strftime('%Y-%m-%dT%H:%M:%S')


def base_world(top_sticky=True):
    nodes = [W.d('/h'), W.d('/h/w'), W.d('/v/d'), W.d('/v/e/deep'), W.f('/v/keep', 'KEEP', 0o644, 800)]
    if top_sticky:
        nodes.append(W.d('/v/.Trash', 0o1777))
    return nodes


def check_list(m, bag, e, when, label):
    _, r = scen.run_model(None, [C('list', [], e, cwd='/')], model=m)
    if r[0]['exc']:
        return rt.fail('C09:list-traceback:' + label, r[0]['exc'])
    got = sorted(K.lines(r[0]['out']))
    if got != bag.lines():
        return rt.fail('C09:list-differs-from-bag:' + label, '%s: trash-list prints %r, the bag holds %r' % (when, got, bag.lines()))
    return ''


def apply_cmd(m, bag, e, cmd, a, b, day, fresh):
    """run one command on model m, update the abstract bag; returns '' or failure.
    cmd: 0 put, 1 restore, 2 rm, 3 empty, 4 empty DAYS, 5 put same path again, 6 restore --overwrite onto an occupied destination, 7 put of a directory containing its own trash directory"""
    now = fmt_date(day)
    if cmd in (0, 5):
        d = DIRS[a % 3]
        name = NAMES[b % 4]
        path = d + '/' + name
        if m.lookup(path, False) is None:
            m.add(path, 'f', 0o644, ('GEN-%d' % fresh).encode(), (5000 + fresh) * W.TAG_NS)
        _, r = scen.run_model(None, [C('put', ['--', path], e, now=now, cwd=d)], model=m)
        if r[0]['exit'] != 0:
            return rt.fail('C09:put-failed', repr(r[0])[:300])
        bag.items.append((path, now.replace('T', ' ')))
        return ''
    if cmd == 1:
        d = DIRS[a % 3]
        m1 = m.clone()
        _, r = scen.run_model(None, [C('restore', [d], e, stdin=[''], cwd='/')], model=m1)
        if r[0]['exc']:
            return rt.fail('C09:restore-traceback', r[0]['exc'])
        lst = K.restore_listing(r[0]['out'])
        want = sorted((p, dt) for (p, dt) in bag.items if p == d or p.startswith(d + '/'))
        if sorted((p, dt) for (_, dt, p) in lst) != want:
            return rt.fail('C09:restore-offers-differ-from-bag', '%r vs %r' % (lst, want))
        if not lst:
            return ''
        idx = b % len(lst)
        _, r = scen.run_model(None, [C('restore', [d], e, stdin=[str(idx)], cwd='/')], model=m)
        if r[0]['exit'] != 0:
            # destination exists (same path put twice and one copy restored earlier): refused, bag unchanged
            return ''
        bag.items.remove((lst[idx][2], lst[idx][1]))
        return ''
    if cmd == 7:
        # trash-put of a directory into a trash directory that lies INSIDE it (--trash-dir D/.tr D): the rename answers
        # EINVAL, there is no other candidate: the put must report failure, the directory stays, no element is added
        d = DIRS[a % 3]
        _, r = scen.run_model(None, [C('put', ['--trash-dir', d + '/.tr', '--', d], e, now=now, cwd='/')], model=m)
        if r[0]['exc']:
            return rt.fail('C09:put-traceback', r[0]['exc'])
        if r[0]['exit'] == 0 and m.lookup(d, False) is not None:
            return rt.fail('C09:put-reports-success-for-an-entry-still-in-place', repr(r[0])[:300])
        _, rl = scen.run_model(None, [C('list', ['--trash-dir', d + '/.tr'], e, cwd='/')], model=m)
        if K.lines(rl[0]['out']):
            return rt.fail('C09:failed-put-left-a-listed-entry', repr(rl[0]['out']))
        return ''
    if cmd == 6:
        # trash-restore --overwrite onto an occupied destination: a file entry replaces it (one element leaves the
        # bag), a directory entry cannot (the move fails: NOTHING may leave the bag, the entry must stay listed)
        d = DIRS[a % 3]
        m1 = m.clone()
        _, r = scen.run_model(None, [C('restore', ['--overwrite', d], e, stdin=[''], cwd='/')], model=m1)
        if r[0]['exc']:
            return rt.fail('C09:restore-traceback', r[0]['exc'])
        lst = K.restore_listing(r[0]['out'])
        if not lst:
            return ''
        idx = b % len(lst)
        dest = lst[idx][2]
        if m.lookup(dest, False) is None:
            m.add(dest, 'f', 0o644, b'OCCUPIED', (6000 + fresh) * W.TAG_NS)
        _, r = scen.run_model(None, [C('restore', ['--overwrite', d], e, stdin=[str(idx)], cwd='/')], model=m)
        if r[0]['exc']:
            return rt.fail('C09:restore-traceback', r[0]['exc'])
        if r[0]['exit'] == 0:
            bag.items.remove((lst[idx][2], lst[idx][1]))
        return ''
    if cmd == 2:
        # (the last two start with a wild card and would match directory components of the full path,
        #  which a relative pattern must never be compared with)
        pat = RM_PATTERNS[(a * 4 + b) % len(RM_PATTERNS)]
        _, r = scen.run_model(None, [C('rm', [pat], e, cwd='/')], model=m)
        if r[0]['exc']:
            return rt.fail('C09:rm-traceback', r[0]['exc'])
        keep = []
        for (p, dt) in bag.items:
            subject = p if pat.startswith('/') else p.rsplit('/', 1)[1]
            if not ref_glob(subject, pat):
                keep.append((p, dt))
        bag.items = keep
        return ''
    if cmd == 3:
        # (every third time interactively, answered y: consent given means purged)
        inter = (a % 3 == 2)
        _, r = scen.run_model(None, [C('empty', ['-i'] if inter else [], e, now=now, cwd='/', stdin=['y'] if inter else [])], model=m)
        if r[0]['exc']:
            return rt.fail('C09:empty-traceback', r[0]['exc'])
        bag.items = []
        return ''
    if cmd == 4:
        days = a % 3  # 0, 1, 2
        _, r = scen.run_model(None, [C('empty', [str(days)], e, now=now, cwd='/')], model=m)
        if r[0]['exc']:
            return rt.fail('C09:empty-traceback', r[0]['exc'])
        limit = datetime.datetime.strptime(now, '%Y-%m-%dT%H:%M:%S') - datetime.timedelta(days=days)
        bag.items = [(p, dt) for (p, dt) in bag.items if not datetime.datetime.strptime(dt, '%Y-%m-%d %H:%M:%S') < limit]
        return ''
    raise ValueError(cmd)


def on_disk_matches(m, bag, label, tds=('/h/.local/share/Trash', '/v/.Trash/1000', '/v/.Trash-1000')):
    snap = m.snap('/')
    n = 0
    for td in tds:
        for name, (info, payload) in scen.trash_entries(snap, td).items():
            if info is None or payload is None:
                return rt.fail('C09:incomplete-pair-on-disk:' + label, '%s/%s info=%r payload=%r' % (td, name, info is not None, payload is not None))
            n += 1
    if n != len(bag.items):
        return rt.fail('C09:pairs-on-disk-differ-from-bag:' + label, '%d pairs on disk, bag has %d' % (n, len(bag.items)))
    return ''


def _step_case(n0, slots, cmd, a, b, top_sticky, lone=False):
    """inductive step: pre-state of n0 entries described by ``slots`` (a number in mixed radix), then one command"""
    with rt.untraced():
        if lone and cmd not in (0, 5):
            rt.begin()
            return rt.ok()
        rt.begin(('step', n0, slots, cmd, a, b, top_sticky, lone))
        e = scen.env()
        nodes = base_world(top_sticky)
        bag = Bag()
        s = slots
        used = set()
        for j in range(n0):
            # day 5 is the very instant the command runs at, day 6 lies in the future
            di, ni, alt, day = s % 3, (s // 3) % 4, (s // 12) % 2, [0, 1, 2, 5, 6][(s // 24) % 5]
            s //= 120
            s += 7 * (j + 1)
            d = DIRS[di]
            path = d + '/' + NAMES[ni]
            vol = '/h' if d.startswith('/h') else '/v'
            tds = TD_FOR[vol] if (top_sticky or vol == '/h') else ['/v/.Trash-1000']
            td = tds[alt % len(tds)]
            pv = path if vol == '/h' else path[3:]
            tname = 'p%d' % j
            date = fmt_date(day)
            nodes += K.trashed(td, tname, K.quote(pv), date, 'file' if j != 1 else 'dir', 2000 + 20 * j)
            bag.items.append((path, date.replace('T', ' ')))
        lone_info = None
        if lone:
            # what an interrupted earlier trash-put leaves: info/<name>.trashinfo without files/<name>, under the very
            # name the next put of <name> would like to use; trash-list shows it, the put must not take it away
            d = DIRS[a % 3]
            vol = '/h' if d.startswith('/h') else '/v'
            td = '/h/.local/share/Trash' if vol == '/h' else ('/v/.Trash/1000' if top_sticky else '/v/.Trash-1000')
            ghost = d + '/ghost'
            lone_info = td + '/info/' + NAMES[b % 4] + '.trashinfo'
            nodes += [W.d(td, 0o700), W.d(td + '/files', 0o700), W.d(td + '/info', 0o700),
                      W.f(lone_info, K.info_text(K.quote(ghost if vol == '/h' else ghost[3:]), fmt_date(0)), 0o600, 2900)]
            bag.items.append((ghost, fmt_date(0).replace('T', ' ')))
        m = W.build_model(W.W(mounts=K.MOUNTS, cwd='/', nodes=nodes))
        label = 'cmd=%d' % cmd + (':lone-info-under-the-wanted-name' if lone else '')
        x = check_list(m, bag, e, 'pre-state', label)
        if x:
            return x
        x = apply_cmd(m, bag, e, cmd, a, b, 5, 1)
        if x:
            return x
        x = check_list(m, bag, e, 'after command', label) or (None if lone else on_disk_matches(m, bag, label))
        if x:
            return x
        return rt.ok()


def _hist_case(c0, c1, c2, a, b):
    with rt.untraced():
        rt.begin(('history', c0, c1, c2, a, b))
        e = scen.env()
        m = W.build_model(W.W(mounts=K.MOUNTS, cwd='/', nodes=base_world(True)))
        bag = Bag()
        # two initial puts so that removals have something to act on
        seq = [0, 5 if a % 2 else 0, c0, c1, c2]
        args = [(a, b), (a + (0 if a % 2 else 1), b + (0 if a % 2 else 1)), (a + 1, b), (a, b + 1), (a + 2, b + 2)]
        for i, (c, (x, y)) in enumerate(zip(seq, args)):
            r = apply_cmd(m, bag, e, c, x, y, i, i)
            if r:
                return r
            label = 'history=%r' % (seq[:i + 1],)
            r = check_list(m, bag, e, 'after step %d' % i, label) or on_disk_matches(m, bag, label)
            if r:
                return r
        return rt.ok()


def _net_case(c0, c1, a, b, sticky):
    """the same history check with the entries on a NETWORK volume (an NFS share: the mount table lists it only among
    'all' file systems, not among those of physical devices): every command must still see its trash directory"""
    global DIRS
    with rt.untraced():
        rt.begin(('network-volume', c0, c1, a, b, sticky))
        e = scen.env()
        nodes = [W.d('/h'), W.d('/h/w'), W.d('/net/d'), W.d('/net/e/deep'), W.d('/v/d'), W.f('/v/keep', 'KEEP', 0o644, 800)]
        if sticky:
            nodes.append(W.d('/net/.Trash', 0o1777))
        m = W.build_model(W.W(mounts=K.MOUNTS + ['/net'], cwd='/', nodes=nodes))
        bag = Bag()
        saved = DIRS
        DIRS = ['/net/d', '/net/e/deep', '/h/w']
        try:
            seq = [0, 0, c0, c1]
            args = [(a, b), (a + 1, b + 1), (a + 1, b), (a, b + 1)]
            for i, (c, (x, y)) in enumerate(zip(seq, args)):
                r = apply_cmd(m, bag, e, c, x, y, i, i)
                if r:
                    return r
                label = 'network-volume:history=%r' % (seq[:i + 1],)
                r = check_list(m, bag, e, 'after step %d' % i, label) or on_disk_matches(
                    m, bag, label, ('/h/.local/share/Trash', '/net/.Trash/1000', '/net/.Trash-1000'))
                if r:
                    return r
        finally:
            DIRS = saved
        return rt.ok()


def w_net(c0: int, c1: int, a: int, b: int, sticky: bool) -> str:
    """
    pre: 0 <= c0 < 7 and 0 <= c1 < 7 and 0 <= a < 3 and 0 <= b < 4
    post: _ == ''
    """
    return _net_case(rt.sel(c0, 7), rt.sel(c1, 7), rt.sel(a, 3), rt.sel(b, 4), rt.selb(sticky))


def w_step(n0: int, slots: int, cmd: int, a: int, b: int, top_sticky: bool, lone: bool) -> str:
    """
    pre: PARTITION is None or (cmd == PARTITION[0] and n0 == PARTITION[1])
    pre: 0 <= n0 <= 3 and 0 <= slots < 120 and 0 <= cmd < 8 and 0 <= a < 3 and 0 <= b < 4
    post: _ == ''
    """
    return _step_case(rt.sel(n0, 4), rt.sel(slots, 120), rt.sel(cmd, 8), rt.sel(a, 3), rt.sel(b, 4), rt.selb(top_sticky), rt.selb(lone))


def w_step_q(n0: int, slots: int, cmd: int, a: int, b: int, lone: bool) -> str:
    """
    pre: PARTITION is None or cmd == PARTITION
    pre: 0 <= n0 <= 3 and 0 <= slots < 40 and 0 <= cmd < 8 and 0 <= a < 3 and 0 <= b < 2
    post: _ == ''
    """
    return _step_case(rt.sel(n0, 4), rt.sel(slots, 40) * 3, rt.sel(cmd, 8), rt.sel(a, 3), rt.sel(b, 2), True, rt.selb(lone))


def w_hist(c0: int, c1: int, c2: int, a: int, b: int) -> str:
    """
    pre: PARTITION is None or (c0 == PARTITION[0] and b < PARTITION[1])
    pre: 0 <= c0 < 6 and 0 <= c1 < 6 and 0 <= c2 < 6 and 0 <= a < 3 and 0 <= b < 4
    post: _ == ''
    """
    return _hist_case(rt.sel(c0, 6), rt.sel(c1, 6), rt.sel(c2, 6), rt.sel(a, 3), rt.sel(b, 4))


def obligations(tier):
    enc = K.PUT_FUNCS + K.LIST_FUNCS + K.RESTORE_FUNCS + K.RM_FUNCS + K.EMPTY_FUNCS
    from harness import kpair
    return kpair.obligations(tier) + [
        CH('W_inductive_step', MOD, 'w_step' if tier == 'thorough' else 'w_step_q', timeout=3000, partitions=[(c, n) for c in range(8) for n in range(4)] if tier == 'thorough' else list(range(8)), engine='W', regime='selector',
           encodes=enc, stubs=K.STUBS,
           bounds='pre-state: 0..3 entries x 120 placements (dir, name, trash dir, date; quick: every third placement) ; 8 commands (put, restore, rm, empty, empty DAYS, put again, restore --overwrite onto an occupied destination, put of a directory that contains its trash directory) x 3 x 4 arguments (quick 3 x 2); .Trash sticky or absent (quick: sticky)'),
        CH('W_histories_len_5', MOD, 'w_hist', timeout=1800, partitions=[(c, 4 if tier == 'thorough' else 1) for c in range(6)], engine='W', regime='selector',
           encodes=enc, stubs=K.STUBS,
           bounds='2 puts then every sequence of 3 commands out of 6 kinds x 3 x 4 argument seeds (quick: 3 x 1); trash-list checked after every step'),
        CH('W_histories_on_a_network_volume', MOD, 'w_net', timeout=900, engine='W', regime='selector', encodes=enc + ['trashcli.fstab.mount_points_listing.os_mount_points (real, over the psutil stub)'],
           stubs=K.STUBS + ['psutil.disk_partitions: an NFS share is listed only with all=True'],
           bounds='entries on an NFS share: 2 puts then every sequence of 2 commands out of 7 kinds x 3 x 4 argument seeds x .Trash sticky or absent; trash-list checked after every step'),
    ]

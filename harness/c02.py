"""C02 -- put then restore returns the exact entry to its exact original path."""
import re

from vf import rt, scen, world as W
from vf.commands import C
from vf.runner import CH
from harness import common as K

PARTITION = None
MOD = 'harness.c02'
META = {
    'level': 'other',
    'explanation': 'Bounded symbolic checking (CrossHair/z3). W: real trash-put main() followed by real trash-restore '
                   'main() on the PosixModel for every valuation of symbolic selectors (entry kind, name class, trash '
                   'directory layout, --sort mode, where restore is run from, removed parent, noise entries); oracle: '
                   'snapshot equality of the restored subtree, pair gone, nothing else changed. K: the path half of '
                   'the round trip (_calc_parent_path then the read-side join) for all strings within the bound.',
    'assumptions': ['PosixModel fidelity (./check MODEL)', 'names are representatives of the classes the kernels '
                    'distinguish (DESIGN 3.7); the all-strings name/codec half is C03'],
}

NAMES = ['x', '.hidden', '-dash', 'a b', 'p%41q', 'new\nline', '\u00fcn\u00ef', 'files', 'x.trashinfo', 'x_1',
         'n' * 200, ' lead', 'trail ', 'a=b', '[Trash Info]', 'Path=z', '..notes', '...']
LAYOUTS = ['home', 'top', 'alt', 'trash-dir', 'trash-dir-through-a-link-on-another-volume', 'home-fallback-across-volumes']
NL = len(LAYOUTS)
SORTS = [None, 'date', 'path', 'none']
FROMS = ['origdir', 'ancestor', 'root', 'path-arg', 'path-arg-rel']
NOISE = ['none', 'other-before', 'same-name-before', 'other-after']


def scenario(kind, name, layout, sort, frm, parent_removed, noise):
    lay = LAYOUTS[layout]
    base = '/h/w' if lay == 'home' else '/v/w'   # HOME=/h on '/', so /h/w uses the home trash
    d = base + '/d'
    path = d + '/' + NAMES[name]
    nodes = [W.d('/h'), W.d(d, 0o755), W.f(base + '/keep', 'KEEP', 0o644, 800)] + K.sentinels('/v/out')
    nodes += K.entry_nodes(kind, path, 1000)
    if lay == 'top':
        nodes.append(W.d('/v/.Trash', 0o1777))
    put_extra = []
    rest_extra = []
    if lay == 'trash-dir':
        put_extra = ['--trash-dir', '/v/td']
        rest_extra = ['--trash-dir', '/v/td']
    if lay.startswith('trash-dir-through'):
        # the trash directory is spelled through a symlink that lives on the root volume and points into /v
        nodes += [W.d('/v/td', 0o700), W.l('/h/lt', '/v/td', 810)]
        put_extra = ['--trash-dir', '/h/lt']
        rest_extra = ['--trash-dir', '/h/lt']
    e = scen.env()
    if lay == 'home-fallback-across-volumes':
        # no usable trash dir on /v: with the fallback enabled the entry crosses to the home trash by copy + delete
        nodes += [W.f('/v/.Trash', 'file', 0o644, 811), W.f('/v/.Trash-1000', 'file', 0o644, 812)]
        put_extra = ['--home-fallback']
        e['TRASH_ENABLE_HOME_FALLBACK'] = '1'
    steps = []
    nz = NOISE[noise]
    if nz == 'other-before':
        nodes += K.entry_nodes('file', d + '/other', 3000)
        steps.append(C('put', put_extra + ['--', d + '/other'], e, now='2020-01-01T00:00:00', cwd=d))
    elif nz == 'same-name-before':
        # an earlier entry with the very same original path, trashed and still in the trash
        steps.append({'pre_put_same': True})
    elif nz == 'other-after':
        nodes += K.entry_nodes('dir', d + '/zz', 3000)
    world = W.W(mounts=K.MOUNTS, cwd=d, nodes=nodes)
    return world, steps, d, path, put_extra, rest_extra, e


parse_listing = K.restore_listing


def _case(kind, name, layout, sort, frm, parent_removed, noise, overwrite=False):
    with rt.untraced():
        rt.begin((K.KINDS[kind], NAMES[name][:12], LAYOUTS[layout], SORTS[sort], FROMS[frm], parent_removed, NOISE[noise], overwrite))
        world, pre, d, path, put_extra, rest_extra, e = scenario(kind, name, layout, sort, frm, parent_removed, noise)
        label = '%s:%s:%s' % (K.KINDS[kind], LAYOUTS[layout], repr(NAMES[name][:12]))
        m = W.build_model(world)
        base = d[:-2]
        for st in pre:
            if st.get('pre_put_same'):
                m.add(path, 'f', 0o644, b'EARLIER-GENERATION', 2999 * W.TAG_NS)
                _, r = scen.run_model(None, [C('put', put_extra + ['--', path], e, now='2020-01-01T00:00:00', cwd=d)], model=m)
                if r[0]['exit'] != 0:
                    return rt.fail('C02:noise-put-failed:' + label, repr(r[0]))
                for nd in K.entry_nodes(kind, path, 1000):
                    m.add(nd[1], nd[0], nd[2], nd[3].encode('latin-1') if nd[0] == 'f' else nd[3],
                          None if nd[4] is None else nd[4] * W.TAG_NS)
            else:
                _, r = scen.run_model(None, [st], model=m)
                if r[0]['exit'] != 0:
                    return rt.fail('C02:noise-put-failed:' + label, repr(r[0]))
        before = m.snap('/')
        payload = scen.sub(before, path)
        _, r = scen.run_model(None, [C('put', put_extra + ['--', path], e, now='2020-01-02T03:04:05', cwd=d)], model=m)
        if r[0]['exit'] != 0 or r[0]['exc']:
            return rt.fail('C02:put-failed:' + label, repr(r[0]))
        if NOISE[noise] == 'other-after':
            _, r = scen.run_model(None, [C('put', put_extra + ['--', d + '/zz'], e, now='2020-01-03T00:00:00', cwd=d)], model=m)
        if m.lookup(path, False) is not None:
            return rt.fail('C02:put-left-source:' + label, 'source still present after a successful put')
        if parent_removed:
            # the original directory disappears (it is empty now or not: remove everything that is left)
            fac = __import__('vf.commands', fromlist=['x']).install_model_backend()
            fac.set_world(m, e, 1000)
            m.set_cwd('/')
            fac.shutil.rmtree(d)
        mid = m.snap('/')
        f = FROMS[frm]
        args = list(rest_extra) + (['--overwrite'] if overwrite else [])  # (nothing is in the way: the option must not matter)
        if SORTS[sort]:
            args += ['--sort', SORTS[sort]]
        if f == 'origdir':
            cwd = '/' if parent_removed else d
            if parent_removed:
                args.append(d)
        elif f == 'ancestor':
            cwd = base
        elif f == 'root':
            cwd = '/'
        elif f == 'path-arg':
            cwd = '/h'
            args.append(path)
        else:
            cwd = base
            if NAMES[name].startswith('-'):
                args.append('--')
            args.append('d/' + NAMES[name])
        # phase 1: obtain the listing (empty reply restores nothing)
        m1 = m.clone()
        _, r1 = scen.run_model(None, [C('restore', args, e, stdin=[''], cwd=cwd)], model=m1)
        if r1[0]['exc']:
            return rt.fail('C02:restore-traceback:%s:sort=%s' % (r1[0]['exc'].split(':')[0], SORTS[sort]),
                           'trash-restore %r crashed: %s' % (args, r1[0]['exc']))
        if m1.snap('/') != mid:
            return rt.fail('C02:empty-reply-changed-world:' + label, 'listing with empty reply modified the world')
        lst = parse_listing(r1[0]['out'])
        mine = [i for (i, dt, p) in lst if p == path and dt == '2020-01-02 03:04:05']
        if len(mine) != 1:
            return rt.fail('C02:not-listed:%s:from=%s' % (label, f),
                           'entry %r not listed exactly once by trash-restore %r from %r: %r' % (path, args, cwd, r1[0]['out'][-600:]))
        if [i for (i, _, _) in lst] != list(range(len(lst))):
            return rt.fail('C02:bad-indexes:' + label, 'listing indexes are not 0..n-1: %r' % (lst,))
        # phase 2: restore it
        _, r2 = scen.run_model(None, [C('restore', args, e, stdin=[str(mine[0])], cwd=cwd)], model=m)
        if r2[0]['exc'] or r2[0]['exit'] != 0:
            return rt.fail('C02:restore-failed:%s' % label, repr(r2[0])[:600])
        after = m.snap('/')
        back = scen.sub(after, path)
        if back != payload and payload[0] == 'l' and back is not None and back[0] == 'l' and back[1] == payload[1] \
                and LAYOUTS[layout] == 'home-fallback-across-volumes':
            # the same recorded defect as C01's: shutil.move re-creates a symlink that crosses devices
            x = rt.fail('C02:symlink-mtime-not-preserved:cross-device-move', 'the symlink %r came back with its target but a fresh modification time' % (path,))
            if x and x != 'twin-reached':
                return x
            back = payload
        if back != payload:
            return rt.fail('C02:restored-differs:' + label,
                           'restored subtree differs: %r' % (W.diff_snaps(payload, scen.sub(after, path))[:6],))
        # everything else: equal to 'before' except new directories (trash skeleton, recreated parents)
        # and except the noise entries moved by their own puts
        removed, added, changed = scen.delta(mid, after)
        bad_removed = [p for p in removed if '/files/' not in p and '/info/' not in p]
        pair_removed = sorted(p for p in removed)
        stray_added = [p for p, v in added.items() if not scen.is_under(p, path) and v[0] != 'd']
        recreated = [p for p, v in added.items() if v[0] == 'd' and not scen.is_under(path, p) and not scen.is_under(p, path)]
        if changed or bad_removed or stray_added or recreated:
            return rt.fail('C02:collateral:' + label, 'restore changed other things: changed=%r removed=%r added=%r newdirs=%r' % (
                sorted(changed)[:5], bad_removed[:5], stray_added[:5], recreated[:5]))
        infos = [p for p in pair_removed if '/info/' in p]
        tops = [p for p in pair_removed if '/files/' in p and p.count('/') == min(q.count('/') for q in pair_removed if '/files/' in q)]
        if len(infos) != 1 or len(tops) != 1:
            return rt.fail('C02:pair-not-removed-exactly:' + label, 'removed from trash: %r' % (pair_removed[:8],))
        if infos[0].rsplit('/', 1)[1] != tops[0].rsplit('/', 1)[1] + '.trashinfo':
            return rt.fail('C02:wrong-pair-removed:' + label, 'removed %r and %r' % (infos[0], tops[0]))
        return rt.ok()


def w_main(kind: int, name: int, layout: int, sort: int) -> str:
    """
    pre: PARTITION is None or kind == PARTITION
    pre: 0 <= kind < 6 and 0 <= name < 18 and 0 <= layout < NL and 0 <= sort < 4
    post: _ == ''
    """
    return _case(rt.sel(kind, 6), rt.sel(name, 18), rt.sel(layout, NL), rt.sel(sort, 4), 0, False, 0)


def w_ow(kind: int, layout: int, frm: int, parent_removed: bool, sort: int) -> str:
    """
    pre: PARTITION is None or kind == PARTITION
    pre: 0 <= kind < 6 and 0 <= layout < NL and 0 <= frm < 5 and 0 <= sort < 4
    post: _ == ''
    """
    return _case(rt.sel(kind, 6), 0, rt.sel(layout, NL), rt.sel(sort, 4), rt.sel(frm, 5), rt.selb(parent_removed), 0, True)


def w_from(kind: int, layout: int, frm: int, parent_removed: bool, noise: int, name: int, sort: int) -> str:
    """
    pre: PARTITION is None or kind == PARTITION
    pre: 0 <= kind < 6 and 0 <= layout < NL and 0 <= frm < 5 and 0 <= noise < 4 and 0 <= name < 3 and 0 <= sort < 3
    post: _ == ''
    """
    return _case(rt.sel(kind, 6), rt.of([0, 2, 5], name), rt.sel(layout, NL), rt.of([0, 2, 3], sort), rt.sel(frm, 5),
                 rt.selb(parent_removed), rt.sel(noise, 4))


def w_full(kind: int, name: int, layout: int, sort: int, frm: int, parent_removed: bool, noise: int) -> str:
    """
    pre: PARTITION is None or (kind == PARTITION[0] and layout == PARTITION[1])
    pre: 0 <= kind < 6 and 0 <= name < 18 and 0 <= layout < NL and 0 <= sort < 4 and 0 <= frm < 5 and 0 <= noise < 4
    post: _ == ''
    """
    return _case(rt.sel(kind, 6), rt.sel(name, 18), rt.sel(layout, NL), rt.sel(sort, 4), rt.sel(frm, 5),
                 rt.selb(parent_removed), rt.sel(noise, 4))


# ------------------------------------------------------------------ K: path half
def k_parent_path(volume: str, rest: str) -> str:
    """
    pre: 1 <= len(volume) <= 3 and len(rest) <= 3
    pre: volume[0] == '/' and (len(volume) == 1 or volume[-1] != '/')
    pre: not rest.startswith('/') and not rest.endswith('/')
    post: _ == ''
    """
    # volume: a mount point; parent: a directory inside it (= volume, or volume + '/' + rest);
    # the write side turns parent into a Path prefix, the read side joins it back onto the volume
    rt.begin()
    import posixpath
    from trashcli.put.original_location import OriginalLocation
    from trashcli.put.core.path_maker_type import PathMakerType
    if rest == '':
        parent = volume
    elif volume == '/':
        parent = '/' + rest
    else:
        parent = volume + '/' + rest
    rel = OriginalLocation._calc_parent_path(parent, volume, PathMakerType.RelativePaths)
    ab = OriginalLocation._calc_parent_path(parent, volume, PathMakerType.AbsolutePaths)
    if ab != parent:
        return rt.fail('C02:abs-parent-changed', '_calc_parent_path(%r, AbsolutePaths) = %r' % (parent, ab))
    if rel != rest:
        return rt.fail('C02:relative-parent-wrong', 'parent=%r volume=%r: relative parent %r, expected %r' % (parent, volume, rel, rest))
    # read side: os.path.join(volume, os.path.join(rel, name)) must designate parent/name
    back = posixpath.join(volume, posixpath.join(rel, 'n'))
    want = posixpath.join(parent, 'n')
    if back != want:
        return rt.fail('C02:relative-parent-does-not-join-back', 'parent=%r volume=%r rel=%r joins back to %r' % (parent, volume, rel, back))
    return rt.ok()


def obligations(tier):
    enc = K.PUT_FUNCS + K.RESTORE_FUNCS
    obs = [
        CH('K_parent_path_roundtrip', MOD, 'k_parent_path', timeout=400, engine='K', regime='traced',
           encodes=['OriginalLocation._calc_parent_path', 'posixpath.join (read side of parse_original_location)'],
           bounds='volume: any mount-point-shaped str len<=3; parent = volume or volume/rest with rest any str len<=3 without leading/trailing slash'),
        CH('W_kind_name_layout_sort', MOD, 'w_main', timeout=900, partitions=list(range(6)), engine='W',
           regime='selector', encodes=enc, stubs=K.STUBS,
           bounds='6 kinds x 18 names x 6 layouts (incl. --trash-dir through a symlink crossing a mount point, and the home fallback across volumes) x 4 sort modes; restore from the original directory'),
        CH('W_from_parent_noise', MOD, 'w_from', timeout=900, partitions=list(range(6)), engine='W',
           regime='selector', encodes=enc, stubs=K.STUBS,
           bounds='6 kinds x 6 layouts x 5 restore-from x parent removed x 4 noise histories x 3 names x 3 sorts'),
    ]
    obs.append(CH('W_restore_with_overwrite_option', MOD, 'w_ow', timeout=900, partitions=list(range(6)), engine='W', regime='selector', encodes=enc, stubs=K.STUBS,
                  bounds='trash-restore --overwrite with nothing in the way: 6 kinds x 6 layouts x 5 restore-from x parent directory removed or not x 4 sort modes'))
    if tier == 'thorough':
        obs.append(CH('W_full_product', MOD, 'w_full', timeout=3000, twin=False, engine='W', regime='selector',
                      partitions=[(k, l) for k in range(6) for l in range(NL)], encodes=enc, stubs=K.STUBS,
                      bounds='6 x 18 x 6 x 4 x 5 x 2 x 4 full product'))
    from harness import kpair
    return kpair.obligations(tier) + obs

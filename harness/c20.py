"""C20 -- all commands read a trash directory the same way (and the way the spec says)."""
import datetime

from vf import rt, scen, world as W
from vf.commands import C
from vf.runner import CH
from harness import common as K, kpair

PARTITION = None
MOD = 'harness.c20'
META = {
    'level': 'other',
    'explanation': 'Bounded symbolic checking with CrossHair/z3. K_parsers: the four real readers (parse_path used by '
                   'trash-list and trash-rm, parse_original_location used by trash-restore, ParseTrashInfo / '
                   'parse_deletion_date / maybe_parse_deletion_date used by trash-empty, trash-restore, trash-list) run on '
                   'the same symbolic content (lines built from symbolic prefix selectors and symbolic values) with '
                   'unquote and strptime replaced by recorders: all hand the same Path value and the same DeletionDate '
                   'line to the library. W: the four real main()s on the PosixModel over symbolic selectors (content '
                   'shape, kind of trash directory incl. home trash on its own volume, --trash-dir).',
    'assumptions': ['PosixModel fidelity (./check MODEL)', 'unquote / strptime semantics are C03 (codec) and the interpreter'],
}

PREFIX = ['Path=', 'DeletionDate=', '[Trash Info]', ' Path=', 'X=', '', 'path=', 'Path =', 'DeletionDate=2020-01-01T00:00:00']

VLEN = 2
UNQ = []
STRP = []


def _rec_unquote(s, *a, **k):
    UNQ.append(s)
    return '<' + s + '>'


class _FakeDT(object):
    class datetime(object):
        @staticmethod
        def strptime(text, f):
            STRP.append((text, f))
            if text.endswith('!'):
                raise ValueError('bad date')
            return ('date', text)


PREFIX2 = ['Path=', 'DeletionDate=', 'X=', '']
CVALS = [('a',), ('b!',), ('',), ('/x y',)]


def k_parsers(p0: int, v0: str, p1: int, c1: int, p2: int, c2: int, pos: int) -> str:
    """
    pre: PARTITION is None or (p0 == PARTITION[0] and pos == PARTITION[1] and c1 < PARTITION[2] and c2 < PARTITION[2])
    pre: 0 <= p0 < 9 and 0 <= p1 < 4 and 0 <= p2 < 4 and 0 <= c1 < 4 and 0 <= c2 < 4 and 0 <= pos < 3
    pre: len(v0) <= VLEN
    pre: chr(10) not in v0
    post: _ == ''
    """
    rt.begin()
    import trashcli.parse_trashinfo.parse_path as pp
    import trashcli.parse_trashinfo.parse_trashinfo as pt
    from trashcli.parse_trashinfo.parse_original_location import parse_original_location
    from trashcli.parse_trashinfo.parse_deletion_date import parse_deletion_date
    from trashcli.parse_trashinfo.maybe_parse_deletion_date import maybe_parse_deletion_date, unknown_date
    # (CrossHair 0.0.110 mis-evaluates concatenation with a concrete empty string: avoid it)
    # one line carries a symbolic value (any string), the other two values come from a table; the symbolic
    # line is the first, second or third one (pos)
    pf = [PREFIX[rt.sel(p0, 9)], PREFIX2[rt.sel(p1, 4)], PREFIX2[rt.sel(p2, 4)]]
    vals = [v0, CVALS[rt.sel(c1, 4)][0], CVALS[rt.sel(c2, 4)][0]]
    lines = [v if p == '' else (p if v == '' else p + v) for p, v in zip(pf, vals)]
    k = rt.sel(pos, 3)
    if k == 1:
        lines = [lines[1], lines[0], lines[2]]
    elif k == 2:
        lines = [lines[1], lines[2], lines[0]]
    content = lines[0] + '\n' + lines[1] + '\n' + lines[2] + '\n'
    s_unq, s_unq2, s_dt = pp.unquote, pt.unquote, pt.datetime
    pp.unquote = _rec_unquote
    pt.unquote = _rec_unquote
    pt.datetime = _FakeDT
    try:
        # reference: first line starting with the key wins
        want_path = None
        want_date = None
        for ln in lines:
            if want_path is None and ln.startswith('Path='):
                want_path = ln[5:]
            if want_date is None and ln.startswith('DeletionDate='):
                want_date = ln
        # list / rm
        del UNQ[:]
        try:
            a = pp.parse_path(content)
        except ValueError:
            a = None
        a_args = list(UNQ)
        # restore
        del UNQ[:]
        try:
            b = parse_original_location(content, '/v')
        except ValueError:
            b = None
        b_args = list(UNQ)
        # generic parser (on_path)
        got_paths = []
        del UNQ[:]
        pt.ParseTrashInfo(on_path=got_paths.append).parse_trashinfo(content)
        c_args = list(UNQ)
        if want_path is None:
            if a is not None or b is not None:
                return rt.fail('C20:path-found-without-Path-line', repr(content))
        else:
            if (not a_args and a is not None) or (not c_args and got_paths):
                return rt.not_applicable('unquote-seam-not-used', 'content %r: a path (%r / %r) came back without the recorded un-quoter being called' % (content, a, got_paths))
            if a_args != [want_path] or a != '<' + want_path + '>':
                return rt.fail('C20:list-rm-path-value', 'content %r: parse_path unquotes %r, first Path value is %r' % (content, a_args, want_path))
            if b_args != [want_path]:
                return rt.fail('C20:restore-path-value', 'content %r: parse_original_location unquotes %r, want %r' % (content, b_args, want_path))
            if not c_args or c_args[0] != want_path:
                return rt.fail('C20:generic-parser-path-value', 'content %r: ParseTrashInfo unquotes %r first, want %r' % (content, c_args[:1], want_path))
        # dates: empty + restore (parse_deletion_date), list (maybe_parse_deletion_date)
        del STRP[:]
        d1 = parse_deletion_date(content)
        s1 = list(STRP)
        del STRP[:]
        d2 = maybe_parse_deletion_date(content)
        s2 = list(STRP)
        if want_date is None:
            if s1 or s2 or d1 is not None or d2 != unknown_date:
                return rt.fail('C20:date-found-without-line', repr(content))
        else:
            fmt = 'DeletionDate=%Y-%m-%dT%H:%M:%S'
            if not s1 or not s2:
                # a DeletionDate line exists but the recorded strptime was not reached by one of the parsers: either the line
                # is ignored (the W obligation shows that) or the date is parsed somewhere else now - this kernel cannot tell
                return rt.not_applicable('strptime-seam-not-used', 'content %r: strptime calls %r and %r, results %r and %r' % (content, s1, s2, d1, d2))
            if s1 != [(want_date, fmt)] or s2 != [(want_date, fmt)]:
                return rt.fail('C20:date-line-differs', 'content %r: strptime got %r and %r, first DeletionDate line is %r' % (content, s1, s2, want_date))
            bad = want_date.endswith('!')
            if bad and (d1 is not None or d2 != unknown_date):
                return rt.fail('C20:invalid-date-accepted', repr(content))
            if (not bad) and (d1 != ('date', want_date) or d2 != ('date', want_date)):
                return rt.fail('C20:date-values-differ', '%r %r' % (d1, d2))
    finally:
        pp.unquote, pt.unquote, pt.datetime = s_unq, s_unq2, s_dt
    return rt.ok()


# --------------------------------------------------------------------------- W
TDK = ['home-on-root', 'home-own-volume', 'top', 'alt', 'trash-dir-opt', 'trash-dir-opt-through-a-link-on-another-volume']
SHAPES = ['abs', 'rel', 'rel-escaped', 'abs-escaped', 'dup-path', 'dup-date', 'extra-keys', 'no-header', 'crlf', 'trailing-space',
          'rel-dotdot', 'plus-sign', 'date-first', 'dup-date-first-malformed', 'dup-date-first-with-offset', 'cr-only']
NSH = len(SHAPES)
NOW = '2020-06-15T12:00:00'


def shape(sk, base_abs, base_rel):
    """-> (info text, value of the first Path line, first date text)"""
    k = SHAPES[sk]
    d = '2020-06-10T12:00:00'
    if k == 'abs':
        p = base_abs + '/n'
        return K.info_text(p, d), p, d
    if k == 'rel':
        p = base_rel + '/n'
        return K.info_text(p, d), p, d
    if k == 'rel-escaped':
        p = base_rel + '/a%20b%25c%C3%A9'
        return K.info_text(p, d), p, d
    if k == 'abs-escaped':
        p = base_abs + '/%41%0Ax'
        return K.info_text(p, d), p, d
    if k == 'dup-path':
        p = base_rel + '/first'
        return '[Trash Info]\nPath=%s\nPath=%s/second\nDeletionDate=%s\n' % (p, base_rel, d), p, d
    if k == 'dup-date':
        p = base_rel + '/n'
        return '[Trash Info]\nPath=%s\nDeletionDate=%s\nDeletionDate=1999-01-01T00:00:00\n' % (p, d), p, d
    if k == 'extra-keys':
        p = base_rel + '/n'
        return '[Trash Info]\nFoo=bar\nPath=%s\n[Other]\nPath2=zz\nDeletionDate=%s\nBaz=1\n' % (p, d), p, d
    if k == 'no-header':
        p = base_rel + '/n'
        return 'Path=%s\nDeletionDate=%s\n' % (p, d), p, d
    if k == 'crlf':
        p = base_rel + '/n'
        # (every reader opens the file in text mode: universal newlines, so CRLF and lone CR end a line)
        return '[Trash Info]\r\nPath=%s\r\nDeletionDate=%s\r\n' % (p, d), p, d
    if k == 'cr-only':
        p = base_rel + '/n'
        return '[Trash Info]\rPath=%s\rDeletionDate=%s\r' % (p, d), p, d
    if k == 'trailing-space':
        p = base_rel + '/n '
        return '[Trash Info]\nPath=%s\nDeletionDate=%s\n' % (p, d), p, d
    if k == 'rel-dotdot':
        p = base_rel + '/../n'
        return K.info_text(p, d), p, d
    if k == 'plus-sign':
        p = base_rel + '/a+b'
        return K.info_text(p, d), p, d
    if k == 'dup-date-first-malformed':
        # the FIRST DeletionDate line decides for every command: it is malformed here, the later valid one is ignored
        p = base_rel + '/n'
        return '[Trash Info]\nPath=%s\nDeletionDate=2001-01-01T00:00:00 \nDeletionDate=2001-01-01T00:00:00\n' % p, p, None
    if k == 'dup-date-first-with-offset':
        p = base_rel + '/n'
        return '[Trash Info]\nPath=%s\nDeletionDate=2002-02-02T00:00:00+02:00\nDeletionDate=2002-02-02T00:00:00\n' % p, p, None
    if k == 'date-first':
        p = base_rel + '/n'
        return '[Trash Info]\nDeletionDate=%s\nPath=%s\n' % (d, p), p, d
    raise ValueError(k)


def _case(tdk, sk):
    with rt.untraced():
        rt.begin((TDK[tdk], SHAPES[sk]))
        import posixpath
        import urllib.parse
        t = TDK[tdk]
        mounts = ['/', '/v']
        home = '/h'
        extra_args = []
        if t == 'home-on-root':
            td, topdir = '/h/.local/share/Trash', '/'
            base_abs, base_rel = '/h/w', 'h/w'
        elif t == 'home-own-volume':
            mounts = ['/', '/v', '/hv']
            home = '/hv/u'
            td, topdir = '/hv/u/.local/share/Trash', '/hv'
            base_abs, base_rel = '/hv/u/w', 'u/w'
        elif t == 'top':
            td, topdir = '/v/.Trash/1000', '/v'
            base_abs, base_rel = '/v/w', 'w'
        elif t == 'alt':
            td, topdir = '/v/.Trash-1000', '/v'
            base_abs, base_rel = '/v/w', 'w'
        elif t == 'trash-dir-opt':
            td, topdir = '/v/custom/td', '/v'
            base_abs, base_rel = '/v/w', 'w'
            extra_args = ['--trash-dir', td]
        else:
            # --trash-dir spelled through a symlink that lives on the root volume: every command must take the same
            # volume for it (trash-cli takes the volume of the spelling, '/'; the spec does not cover --trash-dir)
            td, topdir = '/v/custom/td', '/'
            base_abs, base_rel = '/v/w', 'v/w'
            extra_args = ['--trash-dir', '/h/lt']
        text, pval, dtext = shape(sk, base_abs, base_rel)
        nodes = [W.d(home), W.d('/v/.Trash', 0o1777), W.d(base_abs), W.f('/v/keep', 'KEEP', 0o644, 800)]
        if t == 'alt':
            # the volume ALSO has a valid, used-before $topdir/.Trash/$uid (now empty): .Trash-$uid is still a trash
            # directory of this volume for every reader
            nodes += [W.d('/v/.Trash/1000', 0o700), W.d('/v/.Trash/1000/files', 0o700), W.d('/v/.Trash/1000/info', 0o700)]
        nodes += K.trashed(td, 'e', None, None, 'file', 2000, raw_info=text)
        if t.startswith('trash-dir-opt-through'):
            nodes.append(W.l('/h/lt', td, 811))
        world = W.W(mounts=mounts, cwd='/', nodes=nodes)
        e = scen.env(home=home)
        label = '%s:%s' % (t, SHAPES[sk])
        # what the spec says
        dec = urllib.parse.unquote(pval)
        spec_path = dec if dec.startswith('/') else posixpath.join(topdir, dec)
        # 1. trash-list
        _, r = scen.run_model(world, [C('list', extra_args, e, cwd='/')])
        if r[0]['exc']:
            return rt.fail('C20:list-traceback:' + label, r[0]['exc'])
        out = r[0]['out']
        if not out.endswith('\n') or out.count('\n') < 1:
            return rt.fail('C20:list-no-line:' + label, repr(r[0]))
        line = out[:-1]
        l_date, l_path = line[:19], line[20:]
        # 1b. the other output formats of trash-list name the same original location
        _, rf = scen.run_model(world, [C('list', extra_args + ['--files'], e, cwd='/')])
        if rf[0]['exc']:
            return rt.fail('C20:list-files-traceback:' + label, rf[0]['exc'])
        want_line = '%s %s -> %s' % (l_date, l_path, td + '/files/e')
        arrow = extra_args[1] + '/files/e' if (extra_args and extra_args[1] != td) else td + '/files/e'
        if rf[0]['out'][:-1] not in (want_line, '%s %s -> %s' % (l_date, l_path, arrow)):
            return rt.fail('C20:list-files-differs-from-list:' + label, 'trash-list prints %r, trash-list --files prints %r' % (line, rf[0]['out']))
        # 2. trash-restore listing
        _, r = scen.run_model(world, [C('restore', extra_args + ['/'], e, stdin=[''], cwd='/')])
        if r[0]['exc']:
            return rt.fail('C20:restore-traceback:' + label, r[0]['exc'])
        lst = K.restore_listing(r[0]['out'])
        if len(lst) != 1:
            return rt.fail('C20:restore-does-not-offer:' + label, repr(r[0]['out']))
        r_date, r_path = lst[0][1], lst[0][2]
        if l_path != r_path:
            return rt.fail('C20:list-vs-restore-path:' + t, 'Path=%r in %s: trash-list shows %r, trash-restore shows %r (spec: %r)' % (
                pval, td, l_path, r_path, spec_path))
        if l_path != spec_path:
            return rt.fail('C20:path-not-per-spec:' + label, 'Path=%r in %s: commands show %r, the spec resolves it to %r' % (pval, td, l_path, spec_path))
        want_date = dtext.replace('T', ' ') if dtext else None
        if want_date is None:
            if not (l_date == '????-??-?? ??:??:??' and r_date == 'None'):
                return rt.fail('C20:invalid-date-shown-differently:' + label, '%r %r' % (l_date, r_date))
        elif l_date != want_date or r_date != want_date:
            return rt.fail('C20:dates-differ:' + label, 'list %r restore %r want %r' % (l_date, r_date, want_date))
        # 3. trash-restore really restores to that path
        m3, r = scen.run_model(world, [C('restore', extra_args + ['/'], e, stdin=['0'], cwd='/'), {'snap': '/'}])
        if scen.sub(r[1], l_path.rstrip('/')) is None and not r[0]['exc']:
            norm = posixpath.normpath(l_path)
            if scen.sub(r[1], norm) is None:
                return rt.fail('C20:restore-target-differs:' + label, 'restored somewhere else than %r; stderr %r' % (l_path, r[0]['err'][-200:]))
        # 4. trash-rm: the exact path matches, a different one does not (only for names free of glob characters)
        if not t.startswith('trash-dir-opt') and not any(ch in l_path for ch in '*?['):
            m4, r = scen.run_model(world, [C('rm', [l_path + 'x'], e, cwd='/'), {'snap': '/'}])
            if scen.sub(r[1], td + '/files/e') is None:
                return rt.fail('C20:rm-removed-on-other-path:' + label, '')
            m4, r = scen.run_model(world, [C('rm', [l_path], e, cwd='/'), {'snap': '/'}])
            if scen.sub(r[1], td + '/files/e') is not None or scen.sub(r[1], td + '/info/e.trashinfo') is not None:
                return rt.fail('C20:rm-does-not-match-listed-path:' + t, 'trash-rm %r leaves the entry that trash-list shows as %r' % (l_path, l_path))
        # 5. trash-empty DAYS uses the same date
        if want_date is not None:
            d = datetime.datetime.strptime(dtext, '%Y-%m-%dT%H:%M:%S')
            for off, purged in ((1, True), (0, False)):
                now = (d + datetime.timedelta(days=3, seconds=off)).strftime('%Y-%m-%dT%H:%M:%S')
                m5, r = scen.run_model(world, [C('empty', extra_args + ['3'], e, now=now, cwd='/'), {'snap': '/'}])
                gone = scen.sub(r[1], td + '/files/e') is None
                if gone != purged:
                    return rt.fail('C20:empty-uses-other-date:' + label, 'now=date+3d+%ds: purged=%r' % (off, gone))
        return rt.ok()


PSH = ['dated-old', 'no-date-line', 'invalid-date', 'empty-file', 'dated-recent', 'dup-date-old-new', 'no-path-line', 'date-with-offset']
PLACES2 = ['same-trash-dir', 'home-then-volume', 'two-explicit-trash-dirs']


def _ptext(k, path_value):
    s = PSH[k]
    head = '[Trash Info]\nPath=%s\n' % path_value
    if s == 'dated-old':
        return head + 'DeletionDate=2000-01-01T00:00:00\n'
    if s == 'no-date-line':
        return head
    if s == 'invalid-date':
        return head + 'DeletionDate=2000-13-45T00:00:00\n'
    if s == 'empty-file':
        return ''
    if s == 'dated-recent':
        return head + 'DeletionDate=2020-06-15T00:00:00\n'
    if s == 'dup-date-old-new':
        return head + 'DeletionDate=2000-01-01T00:00:00\nDeletionDate=2020-06-15T00:00:00\n'
    if s == 'no-path-line':
        return '[Trash Info]\nDeletionDate=2000-01-01T00:00:00\n'
    if s == 'date-with-offset':
        return head + 'DeletionDate=2000-01-01T00:00:00+02:00\n'
    raise ValueError(s)


def _observe(entries, place):
    """what the three readers make of a trash holding ``entries`` = [(name, shape)]: trash-list lines, trash-restore
    offers, and which entries `trash-empty 1` purges"""
    nodes = [W.d('/h'), W.d('/h/w'), W.d('/v/w'), W.f('/v/keep', 'KEEP', 0o644, 800)]
    tds = {'same-trash-dir': ['/h/.local/share/Trash', '/h/.local/share/Trash'], 'home-then-volume': ['/h/.local/share/Trash', '/v/.Trash-1000'],
           'two-explicit-trash-dirs': ['/v/t1', '/v/t2']}[PLACES2[place]]
    extra = []
    if PLACES2[place] == 'two-explicit-trash-dirs':
        extra = ['--trash-dir', '/v/t1', '--trash-dir', '/v/t2']
        nodes += [W.d('/v/t1/files', 0o700), W.d('/v/t1/info', 0o700), W.d('/v/t2/files', 0o700), W.d('/v/t2/info', 0o700)]
    where = {}
    for (name, k) in entries:
        td = tds[0 if name == 'aa' else 1]
        pv = ('/h/w/' + name) if td.startswith('/h') else ('w/' + name)
        nodes += K.trashed(td, name, None, None, 'file', 2000 if name == 'aa' else 2040, raw_info=_ptext(k, pv))
        where[name] = td
    world = W.W(mounts=['/', '/v'], cwd='/', nodes=nodes)
    e = scen.env()
    out = {}
    _, r = scen.run_model(world, [C('list', extra, e, cwd='/', now=NOW)])
    if r[0]['exc']:
        return None, 'list: ' + r[0]['exc']
    out['list'] = sorted(K.lines(r[0]['out']))
    out['list-err'] = sorted(ln for ln in K.lines(r[0]['err']))
    rs = []
    for td_arg in ([[]] if not extra else [['--trash-dir', '/v/t1'], ['--trash-dir', '/v/t2']]):
        _, r = scen.run_model(world, [C('restore', td_arg + ['/'], e, stdin=[''], cwd='/', now=NOW)])
        if r[0]['exc']:
            return None, 'restore: ' + r[0]['exc']
        rs += [(d, p_) for (_, d, p_) in K.restore_listing(r[0]['out'])]
    out['restore'] = sorted(rs)
    m, r = scen.run_model(world, [C('empty', extra + ['1'], e, cwd='/', now=NOW), {'snap': '/'}])
    if r[0]['exc']:
        return None, 'empty: ' + r[0]['exc']
    out['purged'] = sorted(n for (n, _) in entries if scen.sub(r[1], where[n] + '/files/' + n) is None)
    out['info-purged'] = sorted(n for (n, _) in entries if scen.sub(r[1], where[n] + '/info/' + n + '.trashinfo') is None)
    return out, ''


def _pair_case(ka, kb, place, order):
    """two entries read in ONE run: what each command makes of an entry does not depend on the entry read before it"""
    with rt.untraced():
        rt.begin(('pair', PSH[ka], PSH[kb], PLACES2[place], order))
        # (the model lists a directory in creation order: 'order' decides which of the two is read first)
        ents = [('aa', ka), ('bb', kb)]
        if order:
            ents = [('bb', kb), ('aa', ka)]
        both, err = _observe(ents, place)
        if both is None:
            return rt.fail('C20:traceback-reading-two-entries:%s+%s' % (PSH[ka], PSH[kb]), err)
        oa, err_a = _observe([('aa', ka)], place)
        ob, err_b = _observe([('bb', kb)], place)
        if oa is None or ob is None:
            return rt.ok()  # (a shape no reader accepts alone is C19's subject)
        label = '%s-read-%s-%s:%s' % (PSH[kb] if not order else PSH[ka], 'after', PSH[ka] if not order else PSH[kb], PLACES2[place])
        for key in ('list', 'restore', 'purged', 'info-purged'):
            want = sorted(oa[key] + ob[key])
            if both[key] != want:
                return rt.fail('C20:reading-depends-on-the-entry-read-before:%s:%s' % (key, label),
                               '%s of the two together: %r; of each alone: %r and %r' % (key, both[key], oa[key], ob[key]))
        return rt.ok()


def w_pairs(ka: int, kb: int, place: int, order: bool) -> str:
    """
    pre: PARTITION is None or ka == PARTITION
    pre: 0 <= ka < 8 and 0 <= kb < 8 and 0 <= place < 3
    post: _ == ''
    """
    return _pair_case(rt.sel(ka, 8), rt.sel(kb, 8), rt.sel(place, 3), rt.selb(order))


def w_main(tdk: int, sk: int) -> str:
    """
    pre: 0 <= tdk < 6 and 0 <= sk < NSH
    post: _ == ''
    """
    return _case(rt.sel(tdk, 6), rt.sel(sk, NSH))


def obligations(tier):
    return kpair.obligations(tier) + [
        CH('K_parsers_agree_all_contents', MOD, 'k_parsers', timeout=900 if tier == 'quick' else 6000, engine='K', regime='traced',
           encodes=['parse_path', 'parse_original_location', 'ParseTrashInfo.parse_trashinfo', 'parse_deletion_date', 'maybe_parse_deletion_date'],
           stubs=['unquote -> recorder', 'datetime.strptime -> recorder'],
           bounds='3 lines in every order: one = one of 9 prefixes + ANY value of len<=2 without newline, two = one of 4 prefixes + one of %d values' % (1 if tier == 'quick' else 4),
           partitions=[(a, b, 1 if tier == 'quick' else 4) for a in range(9) for b in range(3)]),
        CH('W_dirkind_x_shape', MOD, 'w_main', timeout=600, engine='W', regime='selector',
           encodes=K.LIST_FUNCS + K.RESTORE_FUNCS + K.RM_FUNCS + K.EMPTY_FUNCS, stubs=K.STUBS,
           bounds='6 kinds of trash directory (incl. --trash-dir through a symlink on another volume) x 16 content shapes; per case 8 command runs'),
        CH('W_two_entries_read_in_one_run', MOD, 'w_pairs', timeout=900, partitions=list(range(8)), engine='W', regime='selector',
           encodes=K.LIST_FUNCS + K.RESTORE_FUNCS + K.EMPTY_FUNCS, stubs=K.STUBS,
           bounds='two entries x 8 content shapes each (dated, no DeletionDate line, invalid date, empty file, duplicate dates, no Path line, date with offset) x 3 placements '
                  '(one trash dir, home then volume, two --trash-dir) x either reading order; trash-list lines, trash-restore offers and the purge decision of trash-empty 1 '
                  'for the two together equal those of each alone'),
    ]

"""C10 -- trash-empty DAYS purges exactly the entries trashed more than DAYS days ago."""
import datetime

from vf import rt, scen, world as W
from vf.commands import C
from vf.runner import CH
from harness import common as K

PARTITION = None
MOD = 'harness.c10'
META = {
    'level': 'other',
    'explanation': 'Bounded symbolic checking with CrossHair/z3. K_threshold: the real older_than over symbolic DAYS and '
                   'symbolic second counts for now / deletion date (all values in range, not samples): strictly-older-than '
                   'semantics. K_ok_to_delete: DeleteAccordingDate.ok_to_delete with symbolic DAYS presence and date '
                   'kinds. W: the real trash-empty main() on the PosixModel over symbolic selectors (per-entry date slot '
                   'around the limit, malformed / duplicated dates, trash dir, DAYS, TRASH_DATE vs clock).',
    'assumptions': ['PosixModel fidelity (./check MODEL)', 'dates are naive local times on both sides (DST outside)',
                    'datetime.strptime of the interpreter is the environment for well-formed dates'],
}

EPOCH = datetime.datetime(1970, 1, 1)


def k_threshold(days: int, now_s: int, date_s: int, now_us: int) -> str:
    """
    pre: 0 <= days <= 40000
    pre: 0 <= now_s < 4000000000 and 0 <= date_s < 4000000000 and 0 <= now_us < 1000000
    post: _ == ''
    """
    rt.begin()
    from trashcli.empty.older_than import older_than
    # (the clock has microseconds, a DeletionDate has whole seconds)
    now = EPOCH + datetime.timedelta(seconds=now_s, microseconds=now_us)
    date = EPOCH + datetime.timedelta(seconds=date_s)
    got = older_than(days, now, date)
    want = date_s * 1000000 < (now_s - 86400 * days) * 1000000 + now_us
    if got != want:
        return rt.fail('C10:threshold', 'older_than(days=%r, now=%r s + %r us, date=%r s) = %r, strictly-older-than says %r' % (
            days, now_s, now_us, date_s, got, want))
    return rt.ok()


class _Reader(object):
    def __init__(self, text):
        self.text = text

    def contents_of(self, path):
        return self.text


class _Clock(object):
    def __init__(self, now):
        self.now = now

    def get_now_value(self, environ):
        return self.now


DATE_LINES = ['DeletionDate=2020-01-01T00:00:00\n', '', 'DeletionDate=garbage\n', 'DeletionDate=2020-01-01T00:00:00\nDeletionDate=1990-01-01T00:00:00\n',
              'DeletionDate=1990-01-01T00:00:00\nDeletionDate=2020-01-01T00:00:00\n', ' DeletionDate=1990-01-01T00:00:00\n',
              'DeletionDate=2020-01-01T00:00:00 \n', 'deletiondate=1990-01-01T00:00:00\n',
              'DeletionDate=garbage\nDeletionDate=1990-01-01T00:00:00\n', 'DeletionDate=\nDeletionDate=1990-01-01T00:00:00\n']
DATE_FIRST = ['2020-01-01T00:00:00', None, None, '2020-01-01T00:00:00', '1990-01-01T00:00:00', None, None, None, None, None]


def k_ok_to_delete(has_days: bool, days: int, which: int, now_off: int) -> str:
    """
    pre: 0 <= days <= 400 and 0 <= which < 10
    pre: -3 <= now_off <= 3
    post: _ == ''
    """
    rt.begin()
    from trashcli.empty.delete_according_date import DeleteAccordingDate
    w = rt.sel(which, 10)
    text = '[Trash Info]\nPath=a\n' + DATE_LINES[w]
    first = DATE_FIRST[w]
    base = datetime.datetime(2020, 1, 1)
    now = base + datetime.timedelta(days=days, seconds=now_off)
    got = DeleteAccordingDate(_Reader(text), _Clock(now)).ok_to_delete('x.trashinfo', {}, days if has_days else None)
    if not has_days:
        want = True
    elif first is None:
        want = False
    else:
        d = datetime.datetime.strptime(first, '%Y-%m-%dT%H:%M:%S')
        want = d < now - datetime.timedelta(days=days)
    if got != want:
        return rt.fail('C10:ok_to_delete:%d' % w, 'days=%r text=%r now=%r: got %r want %r' % (days if has_days else None, text, now, got, want))
    return rt.ok()


# -------------------------------------------------------------------------- W
NOW = '2020-06-15T12:00:00'
NOWDT = datetime.datetime(2020, 6, 15, 12, 0, 0)
DAYS = [None, 0, 1, 7, 400]
SLOTS = ['limit-1s', 'limit', 'limit+1s', 'far-past', 'future', 'missing', 'malformed', 'dup-old-new', 'dup-new-old',
         'now', 'feb29', 'bad-day', 'malformed-then-old', 'empty-then-old', 'old-with-utc-offset', 'old-with-Z',
         'empty-file', 'header-only']
TDS = [('/h/.local/share/Trash', lambda p: p), ('/v/.Trash/1000', lambda p: p[3:]), ('/v/.Trash-1000', lambda p: p[3:])]
CLOCKS = ['clock', 'TRASH_DATE', 'invalid-TRASH_DATE', 'clock+asked-and-answered-y', 'clock+terminal-and-answered-yes', 'clock-half-a-second-past']


def fmt(dt):
    return dt.strftime('%Y-%m-%dT%H:%M:%S')


def slot_info(slot, days, path_value):
    """-> (info text, expected removal with DAYS given)"""
    d = days if days is not None else 0
    limit = NOWDT - datetime.timedelta(days=d)
    s = SLOTS[slot]
    head = '[Trash Info]\nPath=%s\n' % path_value
    if s == 'limit-1s':
        return head + 'DeletionDate=%s\n' % fmt(limit - datetime.timedelta(seconds=1)), True
    if s == 'limit':
        return head + 'DeletionDate=%s\n' % fmt(limit), False
    if s == 'limit+1s':
        return head + 'DeletionDate=%s\n' % fmt(limit + datetime.timedelta(seconds=1)), False
    if s == 'far-past':
        return head + 'DeletionDate=1990-01-01T00:00:00\n', True
    if s == 'future':
        return head + 'DeletionDate=2099-01-01T00:00:00\n', False
    if s == 'missing':
        return head, False
    if s == 'malformed':
        return head + 'DeletionDate=2020-13-45T99:99:99\n', False
    if s == 'dup-old-new':
        return head + 'DeletionDate=1990-01-01T00:00:00\nDeletionDate=2099-01-01T00:00:00\n', True
    if s == 'dup-new-old':
        return head + 'DeletionDate=2099-01-01T00:00:00\nDeletionDate=1990-01-01T00:00:00\n', False
    if s == 'now':
        return head + 'DeletionDate=%s\n' % fmt(NOWDT), False
    if s == 'feb29':
        return head + 'DeletionDate=2016-02-29T23:59:59\n', True
    if s == 'bad-day':
        return head + 'DeletionDate=2019-02-29T00:00:00\n', False
    if s == 'malformed-then-old':
        return head + 'DeletionDate=2020-13-45T99:99:99\nDeletionDate=1990-01-01T00:00:00\n', False
    if s == 'old-with-utc-offset':
        return head + 'DeletionDate=1990-01-01T00:00:00+02:00\n', False
    if s == 'old-with-Z':
        return head + 'DeletionDate=1990-01-01T00:00:00Z\n', False
    if s == 'empty-file':  # (what a trash-put leaves for an instant between creating the file and writing it)
        return '', False
    if s == 'header-only':
        return '[Trash Info]\n', False
    if s == 'empty-then-old':
        return head + 'DeletionDate=\nDeletionDate=1990-01-01T00:00:00\n', False
    raise ValueError(s)


def _case(days, s0, s1, s2, clock, kind):
    with rt.untraced():
        rt.begin((DAYS[days], SLOTS[s0], SLOTS[s1], SLOTS[s2], CLOCKS[clock], K.KINDS[kind]))
        dv = DAYS[days]
        nodes = [W.d('/h'), W.d('/v/.Trash', 0o1777), W.f('/v/keep', 'KEEP', 0o644, 800)] + K.sentinels('/v/out')
        expect = {}
        for j, (slot, (td, pv)) in enumerate(zip((s0, s1, s2), TDS)):
            base = '/h/w' if td.startswith('/h') else '/v/w'
            loc = base + '/e%d' % j
            text, rm = slot_info(slot, dv, pv(loc))
            nodes += K.trashed(td, 'e%d' % j, None, None, K.KINDS[kind] if j == 0 else 'file', 2000 + 20 * j, raw_info=text)
            expect[(td, 'e%d' % j)] = True if dv is None else rm
        # an orphan payload and a lone info in the alt dir
        nodes += [W.f('/v/.Trash-1000/files/orphan', 'ORPHAN', 0o644, 2200),
                  W.f('/v/.Trash-1000/info/lone.trashinfo', K.info_text('w/lone', '1990-01-01T00:00:00'), 0o600, 2201),
                  W.f('/v/.Trash-1000/info/notinfo.txt', 'not a trashinfo', 0o600, 2202)]
        world = W.W(mounts=K.MOUNTS, cwd='/v', nodes=nodes)
        env = scen.env()
        now = NOW
        ck = CLOCKS[clock]
        if ck == 'TRASH_DATE':
            env['TRASH_DATE'] = NOW
            now = '2001-01-01T00:00:00'  # the real clock must be ignored
        elif ck == 'invalid-TRASH_DATE':
            env['TRASH_DATE'] = 'yesterday'
        elif ck == 'clock-half-a-second-past':
            # the real clock has microseconds: an entry dated exactly DAYS days before the current whole second IS older
            now = NOW + '.500000'
            if dv is not None:
                for j, slot in enumerate((s0, s1, s2)):
                    if SLOTS[slot] == 'limit' or (SLOTS[slot] == 'now' and dv == 0):
                        expect[(TDS[j][0], 'e%d' % j)] = True
        args = [] if dv is None else [str(dv)]
        stdin, tty = [], False
        if ck == 'clock+asked-and-answered-y':
            args, stdin = ['-i'] + args, ['y']       # consent given: exactly the same entries are purged
        elif ck == 'clock+terminal-and-answered-yes':
            stdin, tty = ['yes'], True               # (a terminal on stdin makes trash-empty ask)
        steps = [{'snap': '/'}, C('empty', args, env, now=now, cwd='/v', stdin=stdin, tty=tty), {'snap': '/'}]
        m, res = scen.run_model(world, steps)
        before, r, after = res
        label = 'days=%r' % (dv,)
        if r['exc'] or r['exit'] not in (0, None):
            return rt.fail('C10:failed:%s' % label, repr(r)[:500])
        for (td, name), rm in expect.items():
            slot = SLOTS[(s0, s1, s2)[int(name[1:])]]
            pb, ib = scen.sub(before, td + '/files/' + name), scen.sub(before, td + '/info/' + name + '.trashinfo')
            pa, ia = scen.sub(after, td + '/files/' + name), scen.sub(after, td + '/info/' + name + '.trashinfo')
            if rm:
                if pa is not None or ia is not None:
                    half = 'half' if (pa is None) != (ia is None) else 'kept'
                    return rt.fail('C10:not-purged:%s:%s:%s' % (half, slot, label), '%s/%s should be purged (payload %s, info %s)' % (
                        td, name, 'present' if pa else 'gone', 'present' if ia else 'gone'))
            else:
                if pa != pb or ia != ib:
                    return rt.fail('C10:purged-or-modified:%s:%s' % (slot, label), '%s/%s must be kept intact' % (td, name))
        removed, added, changed = scen.delta(before, after)
        if added or changed:
            return rt.fail('C10:collateral:' + label, 'added=%r changed=%r' % (sorted(added)[:4], sorted(changed)[:4]))
        allowed = set()
        for (td, name), rm in expect.items():
            if rm:
                allowed.add(td + '/files/' + name)
                allowed.add(td + '/info/' + name + '.trashinfo')
        allowed.add('/v/.Trash-1000/files/orphan')  # orphans may go in either mode (must go without DAYS)
        if dv is None or True:
            allowed.add('/v/.Trash-1000/info/lone.trashinfo')
        for p in removed:
            if not any(scen.is_under(p, a) for a in allowed):
                return rt.fail('C10:removed-unexpected:' + label, '%r removed' % (p,))
        if dv is None:
            if scen.sub(after, '/v/.Trash-1000/files/orphan') is not None:
                return rt.fail('C10:orphan-survives-full-empty', 'payload without .trashinfo not removed by trash-empty')
            if scen.sub(after, '/v/.Trash-1000/info/lone.trashinfo') is not None:
                return rt.fail('C10:lone-info-survives-full-empty', '')
        else:
            lone_old = True  # 1990 is older than any DAYS here
            if scen.sub(after, '/v/.Trash-1000/info/lone.trashinfo') is not None and lone_old:
                return rt.fail('C10:lone-info-not-purged:' + label, '')
        if scen.sub(after, '/v/.Trash-1000/info/notinfo.txt') is None:
            return rt.fail('C10:non-trashinfo-removed', '')
        return rt.ok()


def w_main(days: int, s0: int, s1: int, s2: int, clock: int, kind: int) -> str:
    """
    pre: PARTITION is None or (s0 == PARTITION[0] and days == PARTITION[1])
    pre: 0 <= days < 5 and 0 <= s0 < 18 and 0 <= s1 < 18 and 0 <= s2 < 18 and 0 <= clock < 3 and 0 <= kind < 1
    post: _ == ''
    """
    # (the full product of date slots takes three of the six clock sources - the system clock, TRASH_DATE, the clock with
    #  a fraction - and one entry kind; the other clock sources differ only in how consent is given, and they and the
    #  other kinds are covered by W_slots_quick in both tiers)
    return _case(rt.sel(days, 5), rt.sel(s0, 18), rt.sel(s1, 18), rt.sel(s2, 18), rt.of([0, 1, 5], clock), rt.of([0], kind))


def w_quick(days: int, s0: int, clock: int, kind: int) -> str:
    """
    pre: PARTITION is None or days == PARTITION
    pre: 0 <= days < 5 and 0 <= s0 < 18 and 0 <= clock < 6 and 0 <= kind < 6
    post: _ == ''
    """
    s = rt.sel(s0, 18)
    return _case(rt.sel(days, 5), s, (s + 1) % 18, (s + 5) % 18, rt.sel(clock, 6), rt.sel(kind, 6))


# ---------------------------------------------------------------- a trash-put completing while trash-empty DAYS runs
def _conc(k, days, kind, tdk):
    """trash-empty DAYS is preempted after k system calls by a COMPLETE trash-put into the same trash directory, then
    finishes: the fresh entry is younger than DAYS, so it must be intact afterwards (payload and info), the old
    entries and the orphan must be gone"""
    from vf import sched
    with rt.untraced():
        td = ['/v/.Trash-1000', '/h/.local/share/Trash'][tdk]
        base = '/v/w' if tdk == 0 else '/h/w'
        pv = (lambda p: p[3:]) if tdk == 0 else (lambda p: p)
        nodes = [W.d('/h'), W.d(base), W.f('/v/keep', 'KEEP', 0o644, 800)] + K.sentinels('/v/out')
        nodes += K.trashed(td, 'old1', pv(base + '/old1'), '2020-01-01T00:00:00', 'file', 2000)
        nodes += K.trashed(td, 'old2', pv(base + '/old2'), '2020-01-02T00:00:00', 'dir', 2020)
        nodes += K.trashed(td, 'young', pv(base + '/young'), '2020-06-15T00:00:00', 'file', 2040)
        nodes += [W.f(td + '/files/orphan', 'ORPHAN', 0o644, 2060)]
        nodes += K.entry_nodes(K.KINDS[kind], base + '/fresh', 1000)
        m = W.build_model(W.W(mounts=K.MOUNTS, cwd=base, nodes=nodes))
        before = m.snap('/')
        e = scen.env()
        procs = [sched.Proc(C('empty', [str([1, 7, 100][days])], e, now=NOW, cwd=base), 'empty'),
                 sched.Proc(C('put', ['--', 'fresh'], e, now=NOW, cwd=base), 'put')]
        rt.begin(('concurrent-put', k, [1, 7, 100][days], K.KINDS[kind], td))
        sched.run_schedule(m, procs, [(0, k), (1, None)])
        if len(procs[0].log) >= 150:
            return rt.fail('C10:bound-too-small', 'trash-empty made %d system calls; preemption points only range over 0..149' % len(procs[0].log))
        after = m.snap('/')
        label = 'concurrent-put:days=%d:%s' % ([1, 7, 100][days], K.KINDS[kind])
        for p in procs:
            if p.result['exc']:
                return rt.fail('C10:traceback-under-concurrency:' + label, '%s: %s [preempted after %d system calls]' % (p.name, p.result['exc'], k))
        payload = scen.sub(before, base + '/fresh')
        if procs[1].result['exit'] == 0:
            ents = scen.trash_entries(after, td)
            mine = [n for n, (i, pl) in ents.items() if pl == payload]
            if len(mine) != 1 or ents[mine[0]][0] is None:
                return rt.fail('C10:young-entry-not-kept-whole:' + label, 'the entry trashed a moment ago: %r [trash-empty preempted after %d system calls, last of them %r]' % (
                    {n: (i is not None, pl is not None) for n, (i, pl) in ents.items()}, k, procs[0].log[:k][-1:] ))
        young = scen.trash_entries(after, td).get('young')
        if young is None or young[0] is None or young[1] is None:
            return rt.fail('C10:young-entry-not-kept-whole:' + label, 'entry "young" (12 hours old): %r' % (young,))
        return rt.ok()


def w_conc(k: int, days: int, kind: int, tdk: int) -> str:
    """
    pre: PARTITION is None or (days == PARTITION[0] and tdk == PARTITION[1])
    pre: 0 <= k < 150 and 0 <= days < 3 and 0 <= kind < 6 and 0 <= tdk < 2
    post: _ == ''
    """
    return _conc(rt.sel(k, 150), rt.sel(days, 3), rt.sel(kind, 6), rt.sel(tdk, 2))


def obligations(tier):
    obs = [
        CH('K_threshold_all_values', MOD, 'k_threshold', timeout=120, engine='K', regime='traced',
           encodes=['trashcli.empty.older_than.older_than'],
           bounds='0<=DAYS<=40000; now: any microsecond, date: any second in [1970, 2096]', outside='time zones'),
        CH('K_ok_to_delete', MOD, 'k_ok_to_delete', timeout=240, engine='K', regime='traced',
           encodes=['DeleteAccordingDate.ok_to_delete', 'parse_deletion_date', 'ParseTrashInfo.parse_trashinfo', 'older_than'],
           bounds='DAYS absent or 0..400 symbolic; 10 DeletionDate line shapes; now within +-3 s of the limit (symbolic)',
           stubs=['content reader', 'clock']),
        CH('W_slots_quick', MOD, 'w_quick', timeout=600, partitions=list(range(5)), engine='W', regime='selector', encodes=K.EMPTY_FUNCS, stubs=K.STUBS,
           bounds='5 DAYS x 18 date slots (x2 derived neighbours) x 6 clock sources / ways of consenting (incl. a clock half a second past the whole second) x 6 kinds'),
    ]
    obs.append(CH('W_put_completes_while_empty_runs', MOD, 'w_conc', timeout=1200, partitions=[(d, t) for d in range(3) for t in range(2)], engine='W', regime='selector',
                  encodes=K.EMPTY_FUNCS + K.PUT_FUNCS + ['vf.sched replay-stepping'], stubs=K.STUBS,
                  bounds='trash-empty DAYS (1, 7, 100) preempted after k < 150 system calls (its runs are shorter: checked) by a complete trash-put of 6 kinds into the same trash directory (volume / home)'))
    if tier == 'thorough':
        obs.append(CH('W_slots_product', MOD, 'w_main', timeout=3000, partitions=[(a, d) for a in range(18) for d in range(5)], twin=False, engine='W',
                      regime='selector', encodes=K.EMPTY_FUNCS, stubs=K.STUBS,
                      bounds='5 DAYS x 18^3 date slots over 3 trash dirs x 3 clock sources (system clock, TRASH_DATE, a clock half a second past the whole second); 90 tasks of 972 cases'))
    from harness import kpair
    return kpair.obligations(tier) + obs

"""C08 -- an insecure shared $topdir/.Trash is never used, for writing, reading or purging."""
from vf import rt, scen, world as W
from vf.commands import C
from vf.runner import CH, ZQ
from harness import common as K

PARTITION = None
MOD = 'harness.c08'
META = {
    'level': 'other',
    'explanation': 'Bounded symbolic checking with CrossHair/z3. K_rules: the two implementations of the check '
                   '(TopTrashDirRules.valid_to_be_read for the readers, SecurityCheck.check_trash_dir_is_secure for '
                   'trash-put) against a symbolic file-system reader (all 2^4 answer combinations as solver variables): '
                   'accepted iff exists, is a directory, not a symlink, sticky. W: all five real main()s on the '
                   'PosixModel over symbolic selectors (.Trash state, .Trash-uid state, command and arguments, volume).',
    'assumptions': ['PosixModel fidelity (./check MODEL)'],
}


class _R(object):
    def __init__(self, exists, isdir, islink, sticky):
        self.e, self.d, self.l, self.s = exists, isdir, islink, sticky

    # readers' protocol
    def exists(self, path):
        return self.e

    def is_sticky_dir(self, path):
        return self.d and self.s

    def is_symlink(self, path):
        return self.l

    # put's Fs protocol
    def lexists(self, path):
        return self.e or self.l

    def isdir(self, path):
        return self.d

    def islink(self, path):
        return self.l

    def has_sticky_bit(self, path):
        return self.s


def k_rules(exists: bool, isdir: bool, islink: bool, sticky: bool) -> str:
    """
    pre: exists or not isdir
    pre: exists or not sticky
    post: _ == ''
    """
    rt.begin()
    from trashcli.trash_dirs_scanner import TopTrashDirRules, top_trash_dir_valid
    from trashcli.put.janitor_tools.security_check import SecurityCheck
    from trashcli.put.core.candidate import Candidate
    from trashcli.put.core.check_type import TopTrashDirCheck, NoCheck
    from trashcli.put.core.path_maker_type import PathMakerType
    from trashcli.put.gate import Gate
    from trashcli.put.core.either import Right
    r = _R(exists, isdir, islink, sticky)
    secure = exists and isdir and (not islink) and sticky
    # reader side: the uid directory itself exists
    rd = TopTrashDirRules(_R(True, isdir, islink, sticky)).valid_to_be_read('/v/.Trash/1000') == top_trash_dir_valid
    if rd != (isdir and not islink and sticky):
        return rt.fail('C08:reader-rule', 'valid_to_be_read with isdir=%r islink=%r sticky=%r -> %r' % (isdir, islink, sticky, rd))
    cand = Candidate('/v/.Trash/1000', '/v', PathMakerType.RelativePaths, TopTrashDirCheck, Gate.SameVolume)
    wr = isinstance(SecurityCheck(r).check_trash_dir_is_secure(cand), Right)
    if wr != secure:
        return rt.fail('C08:writer-rule', 'check_trash_dir_is_secure with exists=%r isdir=%r islink=%r sticky=%r -> %r' % (
            exists, isdir, islink, sticky, wr))
    cand2 = Candidate('/v/.Trash-1000', '/v', PathMakerType.RelativePaths, NoCheck, Gate.SameVolume)
    if not isinstance(SecurityCheck(r).check_trash_dir_is_secure(cand2), Right):
        return rt.fail('C08:alt-dir-checked', '.Trash-uid must not be subject to the sticky check')
    return rt.ok()


class _St(object):
    def __init__(self, mode):
        self.st_mode = mode


class _StatOs(object):
    """os stand-in whose stat() answers a directory with the given permission bits"""

    def __init__(self, mode, real_os):
        self._mode = mode
        self.path = real_os.path

    def stat(self, path, *a, **k):
        return _St(0o040000 | self._mode)

    lstat = stat


def k_sticky(mode: int) -> str:
    """
    pre: 0 <= mode <= 4095
    post: _ == ''
    """
    rt.begin()
    import trashcli.fs as tfs
    import trashcli.put.fs.real_fs as rfs
    want = (mode // 512) % 2 == 1  # the S_ISVTX bit, nothing else
    saved = (tfs.os, rfs.os)
    fake = _StatOs(mode, saved[0])
    tfs.os = fake
    rfs.os = fake
    try:
        got_readers = tfs.RealHasStickyBit().has_sticky_bit('/v/.Trash')
        got_dir = tfs.RealIsStickyDir.has_sticky_bit(tfs.RealIsStickyDir(), '/v/.Trash')
        got_put = rfs.RealFs.has_sticky_bit(rfs.RealFs.__new__(rfs.RealFs), '/v/.Trash')
    finally:
        tfs.os, rfs.os = saved
    if bool(got_readers) != want or bool(got_dir) != want:
        return rt.fail('C08:sticky-test:readers', 'permission bits %o: the readers consider it %ssticky' % (mode, '' if got_readers else 'not '))
    if bool(got_put) != want:
        return rt.fail('C08:sticky-test:put', 'permission bits %o: trash-put considers it %ssticky' % (mode, '' if got_put else 'not '))
    return rt.ok()


def z_sticky():
    """unsat <=> both sticky tests (readers' and trash-put's) equal 'S_ISVTX set' for every st_mode of a directory"""
    import time
    import z3
    from vf.zenc import bitexpr
    import trashcli.fs as tfs
    import trashcli.put.fs.real_fs as rfs
    mode = z3.BitVec('st_mode', bitexpr.WIDTH)
    try:
        readers = bitexpr.translate(tfs.RealHasStickyBit.has_sticky_bit, mode)
        put = bitexpr.translate(rfs.RealFs.has_sticky_bit, mode)
    except bitexpr.Unsupported as e:
        return {'verdict': 'unknown', 'message': 'sticky test outside the translatable subset: %s' % e}
    want = (mode & 0o1000) != 0
    s = z3.Solver()
    s.set('timeout', 60000)
    s.add(z3.ULE(mode & 0o7777, 0o7777), (mode & ~z3.BitVecVal(0o7777, bitexpr.WIDTH)) == 0o040000)
    s.add(z3.Or(readers != want, put != want))
    t0 = time.time()
    r = s.check()
    out = {'verdict': str(r), 'solver_s': round(time.time() - t0, 3), 'queries': 1,
           'samples': ['readers: ' + str(z3.simplify(readers)), 'trash-put: ' + str(z3.simplify(put))]}
    if str(r) == 'sat':
        m = s.model().eval(mode, model_completion=True).as_long() & 0o7777
        out['model'] = {'mode': m}
        out['message'] = 'permission bits %o: a sticky test answers differently from "S_ISVTX set"' % m
    return out


def z_sticky_replay(model):
    return k_sticky(model['mode'])


ALT = ['absent', 'dir-populated', 'file']
CMDS = ['put', 'put-dir', 'list', 'restore', 'restore-path', 'empty', 'empty-days', 'empty-dry', 'rm-star', 'rm-exact', 'list-trash-dirs',
        'list-trash-dir-names-the-volume', 'empty-trash-dir-names-the-volume', 'list-trash-dir-names-the-volume-slash']
NCMD8 = len(CMDS)


def _case(top, alt, cmd, root=0):
    with rt.untraced():
        rt.begin((K.TOP_STATES[top], ALT[alt], CMDS[cmd], 'sticky-volume-root' if root else 'plain-volume-root'))
        # (a volume whose own top directory is sticky, like a tmpfs on /tmp: the sticky test must look at .Trash, not at it)
        nodes = ([W.d('/v', 0o1777)] if root else []) + [W.d('/h'), W.d('/v/d'), W.f('/v/d/x', 'NEW', 0o644, 1000), W.d('/v/d/xd'), W.f('/v/d/xd/in', 'IN', 0o644, 1001),
                 W.f('/v/keep', 'KEEP', 0o644, 800)]
        tn, real = K.top_state_nodes('/v', top)
        nodes += tn
        uid_dir = None
        if real is not None:
            uid_dir = real + '/1000'
            nodes += K.trashed(uid_dir, 'sec', 'd/secret', '2019-01-01T00:00:00', 'file', 2000)
            nodes += K.trashed(uid_dir, 'sed', 'd/secretdir', '2019-01-02T00:00:00', 'dir', 2020)
            # orphans: payloads without a .trashinfo (trash-empty sweeps them in a trash dir it may use)
            nodes += [W.f(uid_dir + '/files/orphan', 'ORPHAN', 0o644, 2050), W.d(uid_dir + '/files/orphandir'),
                      W.f(uid_dir + '/files/orphandir/in', 'OIN', 0o644, 2051)]
        if ALT[alt] == 'dir-populated':
            nodes += K.trashed('/v/.Trash-1000', 'pub', 'd/public', '2019-01-03T00:00:00', 'file', 2100)
        elif ALT[alt] == 'file':
            nodes.append(W.f('/v/.Trash-1000', 'not a dir', 0o644, 910))
        world = W.W(mounts=K.MOUNTS, cwd='/v/d', nodes=nodes)
        e = scen.env()
        c = CMDS[cmd]
        step = {
            'put': C('put', ['x'], e, cwd='/v/d'), 'put-dir': C('put', ['-v', '/v/d/xd'], e, cwd='/v/d'),
            'list': C('list', [], e, cwd='/v/d'), 'list-trash-dirs': C('list', ['--trash-dirs'], e, cwd='/v/d'),
            'restore': C('restore', [], e, stdin=['0'], cwd='/v/d'),
            'restore-path': C('restore', ['/v/d/secret'], e, stdin=['0'], cwd='/'),
            'empty': C('empty', [], e, cwd='/v/d'), 'empty-days': C('empty', ['1'], e, now='2020-06-01T00:00:00', cwd='/v/d'),
            'empty-dry': C('empty', ['--dry-run'], e, cwd='/v/d'),
            'rm-star': C('rm', ['*'], e, cwd='/v/d'), 'rm-exact': C('rm', ['secret'], e, cwd='/v/d'),
            # (--trash-dir given the mount point itself: whatever that is taken to mean, not a licence to use .Trash/$uid)
            'list-trash-dir-names-the-volume': C('list', ['--trash-dir', '/v'], e, cwd='/v/d'),
            'list-trash-dir-names-the-volume-slash': C('list', ['--trash-dir', '/v/'], e, cwd='/v/d'),
            'empty-trash-dir-names-the-volume': C('empty', ['--trash-dir', '/v'], e, cwd='/v/d'),
        }[c]
        m, res = scen.run_model(world, [{'snap': '/'}, step, {'snap': '/'}])
        before, r, after = res
        label = '%s:cmd=%s' % (K.TOP_STATES[top], c) + (':sticky-volume-root' if root else '')
        sec = K.secure(top)
        if r['exc']:
            return rt.fail('C08:traceback:%s:%s' % (r['exc'].split(':')[0], label), r['exc'])
        if uid_dir is not None and not sec:
            if scen.sub(after, uid_dir) != scen.sub(before, uid_dir):
                return rt.fail('C08:insecure-dir-modified:' + label, 'contents of %s changed: %r' % (uid_dir, scen.delta(scen.sub(before, uid_dir), scen.sub(after, uid_dir))))
            text = r['out'] if c != 'list' else r['out']
            for mark in ('secret', uid_dir + '/files', '/v/.Trash/1000/files'):
                if (c in ('list', 'restore', 'restore-path', 'empty-dry') or c.startswith('list-trash-dir-names')) and mark in r['out']:
                    return rt.fail('C08:insecure-dir-read:' + label, 'stdout mentions %r: %r' % (mark, r['out'][-300:]))
            if c == 'list-trash-dirs' and '/v/.Trash/1000' in [ln.strip() for ln in K.lines(r['out'])]:
                return rt.fail('C08:insecure-dir-listed-as-usable:' + label, r['out'])
            if c == 'list' and K.TOP_STATES[top] in ('nonsticky', 'link-sticky', 'link-nonsticky', 'setgid-nonsticky', 'setuid-nonsticky') and '/v/.Trash/1000' not in r['err']:
                return rt.fail('C08:no-skip-diagnostic:' + label, 'trash-list stderr: %r' % (r['err'],))
        if uid_dir is not None and sec:
            if c == 'list' and 'secret' not in r['out']:
                return rt.fail('C08:secure-dir-not-read:' + label, r['out'])
        if c in ('put', 'put-dir'):
            src = '/v/d/x' if c == 'put' else '/v/d/xd'
            nm = 'x' if c == 'put' else 'xd'
            payload = scen.sub(before, src)
            if sec:
                want = '/v/.Trash/1000/files/' + nm
            elif ALT[alt] != 'file':
                want = '/v/.Trash-1000/files/' + nm
            else:
                want = None
            if want is None:
                if scen.sub(after, src) != payload or r['exit'] == 0:
                    return rt.fail('C08:put-should-fail:' + label, 'no usable candidate yet exit=%r' % r['exit'])
            else:
                if scen.sub(after, want) != payload or r['exit'] != 0:
                    where = scen.find_equal(after, payload)
                    return rt.fail('C08:put-wrong-dir:' + label, 'expected %s, payload at %r, exit %r, stderr %r' % (want, where, r['exit'], r['err'][-300:]))
        return rt.ok()


TV_CMDS = ['list', 'list-trash-dirs', 'restore', 'empty-dry', 'rm-link-volume', 'empty', 'put-on-link-volume']
TV_LINKS = ['absolute', 'relative']


def _twovol(order, cmd, link):
    """two volumes in ONE run: R has a valid sticky .Trash with a $uid directory; L's .Trash is a symbolic link that
    resolves to R's.  The link must be rejected whatever was decided about the directory it resolves to."""
    with rt.untraced():
        R, L = ('/v', '/w') if order == 0 else ('/w', '/v')
        rt.begin((R, L, TV_CMDS[cmd], TV_LINKS[link]))
        nodes = [W.d('/h'), W.d(R + '/d'), W.d(L + '/d'), W.f(L + '/d/y', 'NEW', 0o644, 1000), W.d(R + '/.Trash', 0o1777)]
        uid_dir = R + '/.Trash/1000'
        nodes += K.trashed(uid_dir, 'sec', 'd/secret', '2019-01-01T00:00:00', 'file', 2000)
        nodes.append(W.l(L + '/.Trash', (R + '/.Trash') if TV_LINKS[link] == 'absolute' else ('..' + R + '/.Trash'), 2100))
        world = W.W(mounts=['/', '/v', '/w'], cwd='/', nodes=nodes)
        e = scen.env()
        c = TV_CMDS[cmd]
        step = {
            'list': C('list', [], e, cwd='/'), 'list-trash-dirs': C('list', ['--trash-dirs'], e, cwd='/'),
            'restore': C('restore', ['/'], e, stdin=[''], cwd='/'),
            'empty-dry': C('empty', ['--dry-run'], e, cwd='/'),
            'rm-link-volume': C('rm', [L + '/d/*'], e, cwd='/'),
            'empty': C('empty', [], e, cwd='/'),
            'put-on-link-volume': C('put', [L + '/d/y'], e, cwd='/'),
        }[c]
        m, res = scen.run_model(world, [{'snap': '/'}, step, {'snap': '/'}])
        before, r, after = res
        label = 'two-volumes:link-on-%s-volume:%s-link:cmd=%s' % ('second' if order == 0 else 'first', TV_LINKS[link], c)
        if r['exc']:
            return rt.fail('C08:traceback:%s:%s' % (r['exc'].split(':')[0], label), r['exc'])
        bad, good = L + '/d/secret', R + '/d/secret'
        if c in ('list', 'restore', 'empty-dry'):
            if bad in r['out'] or L + '/.Trash/1000' in r['out']:
                return rt.fail('C08:insecure-dir-read:' + label, 'stdout mentions the entries behind the symlinked %s/.Trash: %r' % (L, r['out'][-300:]))
            if c in ('list', 'restore') and good not in r['out']:
                return rt.fail('C08:secure-dir-not-read:' + label, r['out'][-300:])
        if c == 'list-trash-dirs':
            lines = [ln.strip() for ln in K.lines(r['out'])]
            if (L + '/.Trash/1000') in lines:
                return rt.fail('C08:insecure-dir-listed-as-usable:' + label, r['out'])
            if (R + '/.Trash/1000') not in lines:
                return rt.fail('C08:secure-dir-not-read:' + label, r['out'])
        if c == 'list' and L + '/.Trash/1000' not in r['err']:
            return rt.fail('C08:no-skip-diagnostic:' + label, 'trash-list stderr: %r' % (r['err'],))
        if c in ('rm-link-volume', 'list', 'list-trash-dirs', 'restore', 'empty-dry') and scen.sub(after, uid_dir) != scen.sub(before, uid_dir):
            return rt.fail('C08:insecure-dir-modified:' + label, 'contents of %s changed through %s/.Trash: %r' % (uid_dir, L, scen.delta(scen.sub(before, uid_dir), scen.sub(after, uid_dir))))
        if c == 'empty' and scen.sub(after, uid_dir + '/files/sec') is not None:
            return rt.fail('C08:secure-dir-not-read:' + label, 'trash-empty left the entry of the valid %s in place' % uid_dir)
        if c == 'put-on-link-volume':
            want = L + '/.Trash-1000/files/y'
            if scen.sub(after, want) != scen.sub(before, L + '/d/y') or r['exit'] != 0:
                return rt.fail('C08:put-wrong-dir:' + label, 'expected %s, payload at %r, exit %r, stderr %r' % (
                    want, scen.find_equal(after, scen.sub(before, L + '/d/y')), r['exit'], r['err'][-300:]))
        return rt.ok()


def w_twovol(order: int, cmd: int, link: int) -> str:
    """
    pre: 0 <= order < 2 and 0 <= cmd < 7 and 0 <= link < 2
    post: _ == ''
    """
    return _twovol(rt.sel(order, 2), rt.sel(cmd, 7), rt.sel(link, 2))


BAD2 = ['nonsticky', 'link-sticky', 'link-nonsticky', 'setgid-nonsticky']


def _twobad(ka, kb, third):
    """several volumes whose .Trash is insecure (for the same or for different reasons): none of them is read, and
    trash-list reports EACH skipped directory on stderr"""
    with rt.untraced():
        rt.begin(('several-insecure-volumes', BAD2[ka], BAD2[kb], third))
        vols = ['/v', '/w'] + (['/u'] if third else [])
        kinds = [BAD2[ka], BAD2[kb]] + ([BAD2[ka]] if third else [])
        nodes = [W.d('/h')]
        for vol, kd in zip(vols, kinds):
            tn, real = K.top_state_nodes(vol, kd)
            nodes += tn + [W.d(vol + '/d')]
            nodes += K.trashed(real + '/1000', 'sec', 'd/secret', '2019-01-01T00:00:00', 'file', 2000)
            nodes += K.trashed(vol + '/.Trash-1000', 'pub', 'd/public', '2019-01-03T00:00:00', 'file', 2100)
        world = W.W(mounts=['/'] + vols, cwd='/', nodes=nodes)
        m, res = scen.run_model(world, [C('list', [], scen.env(), cwd='/')])
        r = res[0]
        label = 'several-insecure-volumes:%s+%s%s' % (BAD2[ka], BAD2[kb], '+' + BAD2[ka] if third else '')
        if r['exc']:
            return rt.fail('C08:traceback:%s:%s' % (r['exc'].split(':')[0], label), r['exc'])
        if 'secret' in r['out']:
            return rt.fail('C08:insecure-dir-read:' + label, r['out'][-300:])
        for vol in vols:
            if vol + '/d/public' not in r['out']:
                return rt.fail('C08:secure-dir-not-read:' + label, '%s/.Trash-1000 not listed: %r' % (vol, r['out'][-300:]))
            if vol + '/.Trash/1000' not in r['err']:
                return rt.fail('C08:no-skip-diagnostic:' + label, 'trash-list skipped %s/.Trash/1000 without saying so; stderr: %r' % (vol, r['err']))
        return rt.ok()


def w_twobad(ka: int, kb: int, third: bool) -> str:
    """
    pre: 0 <= ka < 4 and 0 <= kb < 4
    post: _ == ''
    """
    return _twobad(rt.sel(ka, 4), rt.sel(kb, 4), rt.selb(third))


class AdversaryHook(object):
    """another actor makes $topdir/.Trash insecure just before the k-th system call of the run"""

    def __init__(self, k, action, vol='/v'):
        self.k, self.action, self.done, self.vol = k, action, False, vol

    def __call__(self, model, name, args, impl):
        if not self.done and model.nops == self.k:
            self.done = True
            n = model.lookup(self.vol + '/.Trash', False)
            if self.action == 'drop-sticky':
                n.mode = 0o777
            elif self.action == 'replace-by-link':
                parent = model.lookup(self.vol, False)
                moved = parent.children.pop('.Trash')
                parent.children['.Trash-moved-away'] = moved
                model.add(self.vol + '/.Trash', 'l', 0o777, '.Trash-moved-away')
        return model.run_op(name, args, impl)


ACTIONS = ['drop-sticky', 'replace-by-link']


def _midrun(k, action, interactive):
    """trash-put a b c on a volume whose .Trash is secure at first and turns insecure before system call k"""
    with rt.untraced():
        nodes = [W.d('/h'), W.d('/v/d'), W.d('/v/.Trash', 0o1777), W.f('/v/keep', 'KEEP', 0o644, 800)]
        for nm in 'abc':
            nodes.append(W.f('/v/d/' + nm, 'DATA-' + nm, 0o644, 1000 + ord(nm)))
        nodes += K.trashed('/v/.Trash/1000', 'old', 'd/old', '2019-01-01T00:00:00', 'file', 2000)
        m = W.build_model(W.W(mounts=K.MOUNTS, cwd='/v/d', nodes=nodes))
        args = (['-i'] if interactive else []) + ['a', 'b', 'c']
        step = C('put', args, scen.env(), stdin=['y', 'y', 'y'], cwd='/v/d')
        probe = m.clone()
        _, r0 = scen.run_model(None, [step], model=probe)
        n = r0[0]['ops']
        if k > n:
            rt.begin()
            return rt.ok()
        rt.begin(('midrun', k, n, ACTIONS[action], interactive))
        _, r = scen.run_model(None, [step], hook=AdversaryHook(k, ACTIONS[action]), model=m)
        if r[0]['exc']:
            return rt.fail('C08:traceback:midrun:' + r[0]['exc'].split(':')[0], r[0]['exc'])
        log = m.oplog
        starts = {}
        for i, op in enumerate(log):
            if op[0] == 'lstat' and op[1] in ('a', 'b', 'c') and op[1] not in starts:
                starts[op[1]] = i
        snap = m.snap('/')
        for nm in 'abc':
            st = starts.get(nm)
            if st is None or st < k:
                continue  # its processing began before .Trash changed: a check-then-use race is unavoidable there
            for d in ('/v/.Trash/1000/files/', '/v/.Trash-moved-away/1000/files/'):
                if scen.sub(snap, d + nm) is not None:
                    return rt.fail('C08:insecure-dir-used-after-it-became-insecure',
                                   "%s: $topdir/.Trash became insecure (%s) before system call %d; the processing of %r began at call %d, "
                                   'yet it was trashed into %s' % ('trash-put ' + ' '.join(args), ACTIONS[action], k, nm, st, d))
        return rt.ok()


PURGERS = ['empty', 'empty-days', 'rm-star', 'empty-f', 'empty-all-users']


def _stale(k, action, cmd):
    """a purging command over three trash locations (home, /v, /w); /w/.Trash is secure at first and turns insecure
    before system call k.  Check-then-use cannot be closed within one volume, but a verdict must not be carried across
    work on OTHER trash directories: if, after the change, the command still removed something elsewhere and then
    removes entries of /w/.Trash/$uid without having examined /w/.Trash again, it acted on a stale verdict; and if it
    did examine /w/.Trash after the change, it must not purge there at all"""
    with rt.untraced():
        nodes = [W.d('/h'), W.d('/v/d'), W.d('/w/d'), W.d('/v/.Trash', 0o1777), W.d('/w/.Trash', 0o1777), W.f('/v/keep', 'KEEP', 0o644, 800)]
        for td, pv in (('/h/.local/share/Trash', '/h/w/'), ('/v/.Trash/1000', 'd/'), ('/w/.Trash/1000', 'd/'), ('/v/.Trash/1001', 'd/'), ('/w/.Trash/1001', 'd/')):
            for j, nm in enumerate(('p', 'q', 'r')):
                nodes += K.trashed(td, nm, pv + nm, '2019-01-0%dT00:00:00' % (j + 1), 'file' if j else 'dir', 2000 + 20 * j)
        m = W.build_model(W.W(mounts=['/', '/v', '/w'], cwd='/', nodes=nodes))
        e = scen.env()
        step = {'empty': C('empty', [], e, cwd='/'), 'empty-days': C('empty', ['1'], e, now='2020-06-01T00:00:00', cwd='/'),
                'rm-star': C('rm', ['*'], e, cwd='/'), 'empty-f': C('empty', ['-f'], e, cwd='/', tty=True),
                # (--all-users: the same $topdir/.Trash is the parent of one directory per user of the password database)
                'empty-all-users': C('empty', ['--all-users'], e, cwd='/')}[PURGERS[cmd]]
        probe = m.clone()
        _, r0 = scen.run_model(None, [step], model=probe)
        n = r0[0]['ops']
        if n >= 600:
            return rt.fail('C08:bound-too-small', 'the run makes %d system calls; instants only range over 0..599' % n)
        if k > n:
            rt.begin()
            return rt.ok()
        rt.begin(('stale-verdict', k, n, ACTIONS[action], PURGERS[cmd]))
        _, r = scen.run_model(None, [step], hook=AdversaryHook(k, ACTIONS[action], '/w'), model=m)
        if r[0]['exc']:
            return rt.fail('C08:traceback:midrun:' + r[0]['exc'].split(':')[0], r[0]['exc'])
        log = m.oplog
        destructive = ('unlink', 'rmdir', 'rename')

        def under(op, prefix):
            return len(op) > 1 and isinstance(op[1], str) and (op[1] == prefix or op[1].startswith(prefix + '/'))
        def absolute(op):
            return len(op) > 1 and isinstance(op[1], str) and op[1].startswith('/')
        label = '%s:%s' % (PURGERS[cmd], ACTIONS[action])
        # every $uid directory under /w/.Trash is a trash directory of its own (with --all-users several are purged)
        for target in ('/w/.Trash/1000', '/w/.Trash/1001'):
            # the first use of anything INSIDE it after the change (relative names belong to an fd-based rmtree whose
            # first and last step are spelled absolutely)
            first_w = None
            for i in range(k, len(log)):
                if absolute(log[i]) and log[i][1].startswith(target + '/'):
                    first_w = i
                    break
            if first_w is None:
                continue
            removed_there = [i for i in range(first_w, len(log)) if log[i][0] in destructive and under(log[i], target)]
            if not removed_there:
                continue
            seen = set(log[i][0] for i in range(k, first_w) if log[i][0] in ('stat', 'lstat') and absolute(log[i]) and log[i][1].rstrip('/') == '/w/.Trash')
            if seen == {'stat', 'lstat'}:
                return rt.fail('C08:insecure-dir-modified:examined-after-the-change:' + label,
                               '/w/.Trash became insecure before system call %d, was examined completely after that, and %r followed at call %d' % (k, log[removed_there[0]][:2], removed_there[0]))
            elsewhere = [i for i in range(k, first_w) if log[i][0] in destructive and absolute(log[i]) and not under(log[i], target)]
            if elsewhere:
                return rt.fail('C08:insecure-dir-modified:stale-verdict-carried-across-other-trash-dirs:' + label,
                               '/w/.Trash became insecure before system call %d; the command then still removed %r (call %d) and later %r (call %d) without examining /w/.Trash again' % (
                                   k, log[elsewhere[0]][:2], elsewhere[0], log[removed_there[0]][:2], removed_there[0]))
        return rt.ok()


def w_stale(k: int, action: int, cmd: int) -> str:
    """
    pre: PARTITION is None or (action == PARTITION[0] and cmd == PARTITION[1])
    pre: 0 <= k < 600 and 0 <= action < 2 and 0 <= cmd < 5
    post: _ == ''
    """
    return _stale(rt.sel(k, 600), rt.sel(action, 2), rt.sel(cmd, 5))


def w_midrun(k: int, action: int, interactive: bool) -> str:
    """
    pre: PARTITION is None or (action == PARTITION[0] and interactive == PARTITION[1])
    pre: 0 <= k < 200 and 0 <= action < 2
    post: _ == ''
    """
    return _midrun(rt.sel(k, 200), rt.sel(action, 2), rt.selb(interactive))


def w_main(top: int, alt: int, cmd: int, root: int) -> str:
    """
    pre: 0 <= top < 9 and 0 <= alt < 3 and 0 <= cmd < NCMD8 and 0 <= root < 2
    post: _ == ''
    """
    return _case(rt.sel(top, 9), rt.sel(alt, 3), rt.sel(cmd, NCMD8), rt.sel(root, 2))


def obligations(tier):
    return [
        CH('K_rules_reader_and_writer', MOD, 'k_rules', timeout=120, engine='K', regime='traced',
           encodes=['TopTrashDirRules.valid_to_be_read', 'SecurityCheck.check_trash_dir_is_secure'],
           bounds='all answer combinations of a symbolic reader (exists, isdir, islink, sticky)', stubs=['file-system reader -> 4 symbolic booleans']),
        ZQ('Z_sticky_test_all_modes', MOD, 'z_sticky', timeout=60,
           encodes=['trashcli.fs.RealHasStickyBit.has_sticky_bit', 'RealFs.has_sticky_bit (from their ASTs, following calls)'],
           stubs=['os.stat(path).st_mode -> bit-vector variable'], bounds='every st_mode of a directory (all 4096 permission values)'),
        CH('W_state_x_alt_x_cmd', MOD, 'w_main', timeout=600, engine='W', regime='selector',
           encodes=K.PUT_FUNCS + K.LIST_FUNCS + K.RESTORE_FUNCS + K.EMPTY_FUNCS + K.RM_FUNCS, stubs=K.STUBS,
           bounds='9 .Trash states (incl. setgid/setuid without sticky) x 3 .Trash-uid states x 14 command/argument combinations (all five commands, incl. --trash-dir naming the mount point) x volume root plain / sticky'),
        CH('W_two_volumes_link_to_valid_dir', MOD, 'w_twovol', timeout=300, engine='W', regime='selector',
           encodes=K.PUT_FUNCS + K.LIST_FUNCS + K.RESTORE_FUNCS + K.EMPTY_FUNCS + K.RM_FUNCS, stubs=K.STUBS,
           bounds='two volumes in one run, one with a valid sticky .Trash, the other with .Trash a symbolic link (absolute | relative) resolving to it; '
                  'either scanning order x 7 command/argument combinations'),
        CH('W_several_insecure_volumes_each_reported', MOD, 'w_twobad', timeout=300, engine='W', regime='selector', encodes=K.LIST_FUNCS, stubs=K.STUBS,
           bounds='2 or 3 volumes whose .Trash is insecure, 4 x 4 combinations of reasons: trash-list reads none of them and names each on stderr'),
        CH('W_purge_does_not_carry_a_verdict_across_trash_dirs', MOD, 'w_stale', timeout=1200, partitions=[(a, c) for a in range(2) for c in range(5)], engine='W', regime='selector',
           encodes=K.EMPTY_FUNCS + K.RM_FUNCS + ['TrashDirsScanner.scan_trash_dirs (lazy)', 'Guard.ask_the_user'], stubs=K.STUBS + ['another actor changes /w/.Trash before system call k'],
           bounds='trash-empty / trash-empty 1 / trash-empty -f on a tty / trash-rm * / trash-empty --all-users (two users of a stubbed password database) over home, /v and /w (3 entries per trash directory, two $uid directories per .Trash); /w/.Trash turns insecure (sticky bit dropped | replaced by a symlink) before system call k, k in 0..599 (runs are shorter: checked)',
           outside='the check-then-use window within one volume (the change falls between the examination of /w/.Trash and the purge of /w with no other removal in between); trash-empty -i, which must list every trash directory before it can ask, so that its verdicts are as old as the question'),
        CH('W_put_rechecks_per_argument', MOD, 'w_midrun', timeout=900, partitions=[(a, i) for a in range(2) for i in (False, True)], engine='W', regime='selector', encodes=K.PUT_FUNCS, stubs=K.STUBS,
           bounds='trash-put a b c (with/without -i); .Trash turns insecure (sticky bit dropped | replaced by a symlink) before system call k, k in 0..199 '
                  '(runs are shorter: checked); an argument whose processing starts after that instant must not land in .Trash/$uid'),
    ]

"""C08 -- an insecure shared $topdir/.Trash is never used, for writing, reading or purging."""
from vf import rt, scen, world as W
from vf.commands import C
from vf.runner import CH
from harness import common as K

PARTITION = None
MOD = 'harness.c08'
META = {
    'level': 'other',
    'explanation': 'Bounded symbolic checking with CrossHair/z3. K_rules: the two implementations of the check '
                   '(TopTrashDirRules.valid_to_be_read for the readers, SecurityCheck.check_trash_dir_is_secure for '
                   'trash-put) against a symbolic file-system reader (all 2^4 answer combinations as solver variables): '
                   'accepted iff exists, is a directory, not a symlink, sticky. W: all five real main()s on the '
                   'PosixModel over symbolic selectors (.Trash state, .Trash-uid state, command and arguments, volume).',
    'assumptions': ['PosixModel fidelity (./check MODEL)'],
}


class _R(object):
    def __init__(self, exists, isdir, islink, sticky):
        self.e, self.d, self.l, self.s = exists, isdir, islink, sticky

    # readers' protocol
    def exists(self, path):
        return self.e

    def is_sticky_dir(self, path):
        return self.d and self.s

    def is_symlink(self, path):
        return self.l

    # put's Fs protocol
    def lexists(self, path):
        return self.e or self.l

    def isdir(self, path):
        return self.d

    def islink(self, path):
        return self.l

    def has_sticky_bit(self, path):
        return self.s


def k_rules(exists: bool, isdir: bool, islink: bool, sticky: bool) -> str:
    """
    pre: exists or not isdir
    pre: exists or not sticky
    post: _ == ''
    """
    rt.begin()
    from trashcli.trash_dirs_scanner import TopTrashDirRules, top_trash_dir_valid
    from trashcli.put.janitor_tools.security_check import SecurityCheck
    from trashcli.put.core.candidate import Candidate
    from trashcli.put.core.check_type import TopTrashDirCheck, NoCheck
    from trashcli.put.core.path_maker_type import PathMakerType
    from trashcli.put.gate import Gate
    from trashcli.put.core.either import Right
    r = _R(exists, isdir, islink, sticky)
    secure = exists and isdir and (not islink) and sticky
    # reader side: the uid directory itself exists
    rd = TopTrashDirRules(_R(True, isdir, islink, sticky)).valid_to_be_read('/v/.Trash/1000') == top_trash_dir_valid
    if rd != (isdir and not islink and sticky):
        return rt.fail('C08:reader-rule', 'valid_to_be_read with isdir=%r islink=%r sticky=%r -> %r' % (isdir, islink, sticky, rd))
    cand = Candidate('/v/.Trash/1000', '/v', PathMakerType.RelativePaths, TopTrashDirCheck, Gate.SameVolume)
    wr = isinstance(SecurityCheck(r).check_trash_dir_is_secure(cand), Right)
    if wr != secure:
        return rt.fail('C08:writer-rule', 'check_trash_dir_is_secure with exists=%r isdir=%r islink=%r sticky=%r -> %r' % (
            exists, isdir, islink, sticky, wr))
    cand2 = Candidate('/v/.Trash-1000', '/v', PathMakerType.RelativePaths, NoCheck, Gate.SameVolume)
    if not isinstance(SecurityCheck(r).check_trash_dir_is_secure(cand2), Right):
        return rt.fail('C08:alt-dir-checked', '.Trash-uid must not be subject to the sticky check')
    return rt.ok()


ALT = ['absent', 'dir-populated', 'file']
CMDS = ['put', 'put-dir', 'list', 'restore', 'restore-path', 'empty', 'empty-days', 'empty-dry', 'rm-star', 'rm-exact', 'list-trash-dirs']


def _case(top, alt, cmd):
    with rt.untraced():
        rt.begin((K.TOP_STATES[top], ALT[alt], CMDS[cmd]))
        nodes = [W.d('/h'), W.d('/v/d'), W.f('/v/d/x', 'NEW', 0o644, 1000), W.d('/v/d/xd'), W.f('/v/d/xd/in', 'IN', 0o644, 1001),
                 W.f('/v/keep', 'KEEP', 0o644, 800)]
        tn, real = K.top_state_nodes('/v', top)
        nodes += tn
        uid_dir = None
        if real is not None:
            uid_dir = real + '/1000'
            nodes += K.trashed(uid_dir, 'sec', 'd/secret', '2019-01-01T00:00:00', 'file', 2000)
            nodes += K.trashed(uid_dir, 'sed', 'd/secretdir', '2019-01-02T00:00:00', 'dir', 2020)
        if ALT[alt] == 'dir-populated':
            nodes += K.trashed('/v/.Trash-1000', 'pub', 'd/public', '2019-01-03T00:00:00', 'file', 2100)
        elif ALT[alt] == 'file':
            nodes.append(W.f('/v/.Trash-1000', 'not a dir', 0o644, 910))
        world = W.W(mounts=K.MOUNTS, cwd='/v/d', nodes=nodes)
        e = scen.env()
        c = CMDS[cmd]
        step = {
            'put': C('put', ['x'], e, cwd='/v/d'), 'put-dir': C('put', ['-v', '/v/d/xd'], e, cwd='/v/d'),
            'list': C('list', [], e, cwd='/v/d'), 'list-trash-dirs': C('list', ['--trash-dirs'], e, cwd='/v/d'),
            'restore': C('restore', [], e, stdin=['0'], cwd='/v/d'),
            'restore-path': C('restore', ['/v/d/secret'], e, stdin=['0'], cwd='/'),
            'empty': C('empty', [], e, cwd='/v/d'), 'empty-days': C('empty', ['1'], e, now='2020-06-01T00:00:00', cwd='/v/d'),
            'empty-dry': C('empty', ['--dry-run'], e, cwd='/v/d'),
            'rm-star': C('rm', ['*'], e, cwd='/v/d'), 'rm-exact': C('rm', ['secret'], e, cwd='/v/d'),
        }[c]
        m, res = scen.run_model(world, [{'snap': '/'}, step, {'snap': '/'}])
        before, r, after = res
        label = '%s:cmd=%s' % (K.TOP_STATES[top], c)
        sec = K.secure(top)
        if r['exc']:
            return rt.fail('C08:traceback:%s:%s' % (r['exc'].split(':')[0], label), r['exc'])
        if uid_dir is not None and not sec:
            if scen.sub(after, uid_dir) != scen.sub(before, uid_dir):
                return rt.fail('C08:insecure-dir-modified:' + label, 'contents of %s changed: %r' % (uid_dir, scen.delta(scen.sub(before, uid_dir), scen.sub(after, uid_dir))))
            text = r['out'] if c != 'list' else r['out']
            for mark in ('secret', uid_dir + '/files', '/v/.Trash/1000/files'):
                if c in ('list', 'restore', 'restore-path', 'empty-dry') and mark in r['out']:
                    return rt.fail('C08:insecure-dir-read:' + label, 'stdout mentions %r: %r' % (mark, r['out'][-300:]))
            if c == 'list-trash-dirs' and '/v/.Trash/1000' in [ln.strip() for ln in K.lines(r['out'])]:
                return rt.fail('C08:insecure-dir-listed-as-usable:' + label, r['out'])
            if c == 'list' and K.TOP_STATES[top] in ('nonsticky', 'link-sticky', 'link-nonsticky') and '/v/.Trash/1000' not in r['err']:
                return rt.fail('C08:no-skip-diagnostic:' + label, 'trash-list stderr: %r' % (r['err'],))
        if uid_dir is not None and sec:
            if c == 'list' and 'secret' not in r['out']:
                return rt.fail('C08:secure-dir-not-read:' + label, r['out'])
        if c in ('put', 'put-dir'):
            src = '/v/d/x' if c == 'put' else '/v/d/xd'
            nm = 'x' if c == 'put' else 'xd'
            payload = scen.sub(before, src)
            if sec:
                want = '/v/.Trash/1000/files/' + nm
            elif ALT[alt] != 'file':
                want = '/v/.Trash-1000/files/' + nm
            else:
                want = None
            if want is None:
                if scen.sub(after, src) != payload or r['exit'] == 0:
                    return rt.fail('C08:put-should-fail:' + label, 'no usable candidate yet exit=%r' % r['exit'])
            else:
                if scen.sub(after, want) != payload or r['exit'] != 0:
                    where = scen.find_equal(after, payload)
                    return rt.fail('C08:put-wrong-dir:' + label, 'expected %s, payload at %r, exit %r, stderr %r' % (want, where, r['exit'], r['err'][-300:]))
        return rt.ok()


def w_main(top: int, alt: int, cmd: int) -> str:
    """
    pre: 0 <= top < 6 and 0 <= alt < 3 and 0 <= cmd < 11
    post: _ == ''
    """
    return _case(rt.sel(top, 6), rt.sel(alt, 3), rt.sel(cmd, 11))


def obligations(tier):
    return [
        CH('K_rules_reader_and_writer', MOD, 'k_rules', timeout=120, engine='K', regime='traced',
           encodes=['TopTrashDirRules.valid_to_be_read', 'SecurityCheck.check_trash_dir_is_secure'],
           bounds='all answer combinations of a symbolic reader (exists, isdir, islink, sticky)', stubs=['file-system reader -> 4 symbolic booleans']),
        CH('W_state_x_alt_x_cmd', MOD, 'w_main', timeout=600, engine='W', regime='selector',
           encodes=K.PUT_FUNCS + K.LIST_FUNCS + K.RESTORE_FUNCS + K.EMPTY_FUNCS + K.RM_FUNCS, stubs=K.STUBS,
           bounds='6 .Trash states x 3 .Trash-uid states x 11 command/argument combinations (all five commands)'),
    ]

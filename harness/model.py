"""./check MODEL -- differential validation of the environment stub.

Not one of the 20 properties: it validates the trusted base every W check
rests on.  A corpus of single operations (every modelled system call and the
CPython library functions re-executed over them, on every node kind and path
spelling, incl. cross-volume and mount-point cases) and of whole trash-cli
command scenarios is executed (a) on the PosixModel through the facades and (b)
on a real tmpfs tree inside a chroot + private mount namespace with the real
os / shutil; return values, errnos and final trees must agree.
"""
import json
import os
import sys
import time

from vf import commands, realfs, scen, world as W
from vf.commands import C

HERE = os.path.dirname(os.path.dirname(os.path.abspath(__file__)))


def base_world():
    nodes = [W.d('/a'), W.d('/a/d', 0o755), W.f('/a/d/f', 'FFF', 0o640, 100), W.d('/a/d/s', 0o750), W.f('/a/d/s/g', 'G', 0o600, 101),
             W.l('/a/d/l', 'f', 102), W.l('/a/d/ld', 's', 103), W.l('/a/d/dl', 'nowhere', 104), W.l('/a/d/labs', '/a/d/s', 105),
             W.d('/a/e', 0o755), W.d('/a/ne'), W.f('/a/ne/x', 'X', 0o644, 106), W.d('/a/st', 0o1777), W.f('/a/file', 'FILE', 0o644, 107),
             W.d('/v/b'), W.f('/v/b/x', 'VX', 0o644, 108), W.d('/v/b/t'), W.f('/v/b/t/u', 'U', 0o644, 109), W.l('/v/b/lk', 'x', 110),
             W.l('/a/lv', '/v/b', 111), W.f('/a/crlf', 'A\r\nB\rC\n\xc3\xa9', 0o644, 114), W.l('/a/loop', 'loop', 112), W.d('/a/d/s/deep/er'), W.l('/a/d/s/deep/up', '../..', 113)]
    return W.W(mounts=['/', '/v'], cwd='/a', nodes=nodes)


PATHS = ['/', '/a', '/a/', '/a/d', '/a/d/', '/a/d/f', '/a/d/f/', '/a/d/l', '/a/d/l/', '/a/d/ld', '/a/d/ld/', '/a/d/dl', '/a/d/dl/', 'd/f', 'd/../d/s',
         './d', 'd/s/..', 'd/ld/g', 'd/ld/../f', '/a/lv', '/a/lv/x', '/a/lv/', '/v', '/v/', '/v/b', '/v/b/..', '/a/loop', '/a/loop/x', 'missing',
         'missing/x', 'd/f/x', '', '.', '..', '../..', '/a/d/s/deep/up', '/a/d/s/deep/up/f', '/a/d/labs/g', '//a//d///f', '/a/./d/./f', 'n' * 255, 'n' * 256, '/a/crlf']


def op_corpus():
    ops = []
    for p in PATHS:
        for fn in ('os.path.exists', 'os.path.lexists', 'os.path.isdir', 'os.path.isfile', 'os.path.islink', 'os.path.ismount',
                   'os.path.realpath', 'os.path.abspath', 'os.path.getsize', 'os.readlink', 'listdir'):
            ops.append([fn, p])
        ops.append(['statmode', p, True])
        ops.append(['statmode', p, False])
        ops.append(['os.access', p, 0])
        ops.append(['read', p])
        ops.append(['readtext', p])
    for p in ['new', 'new/', '/a/d', '/a/d/f', 'd/l', 'd/dl', 'd/ld/new', 'missing/new', 'd/f/new', '/v/new', '/a/lv/new', 'n' * 256, '']:
        ops.append(['os.mkdir', p])
        ops.append(['os.mkdir', p, 0o700])
        ops.append(['os.makedirs', p])
        ops.append(['os.makedirs', p + '/p/q', 0o700])
        ops.append(['os.symlink', 'tgt', p])
        ops.append(['os.open+close', p, os.O_WRONLY | os.O_CREAT | os.O_EXCL, 0o600])
        ops.append(['os.open+close', p, os.O_WRONLY | os.O_CREAT, 0o644])
        ops.append(['write', p, 'w', 'data'])
        ops.append(['write', p, 'a', 'more'])
        ops.append(['write', p, 'x', 'excl'])
        ops.append(['write', p, 'wb', 'bin'])
    for p in ['e', 'e/', 'd', 'd/s', 'd/f', 'd/ld', 'd/ld/', 'd/dl', '.', 'e/.', 'e/..', '/v', '/v/b/t', 'missing', '/', '/a/lv', '/a/lv/', 'd/s/deep/er']:
        ops.append(['os.rmdir', p])
        ops.append(['os.remove', p])
        ops.append(['shutil.rmtree', p])
        ops.append(['os.chmod', p, 0o1700])
    pairs = [('d/f', 'new'), ('d/f', 'file'), ('d/f', 'e'), ('d/f', 'e/'), ('d/f', 'd/s'), ('d/s', 'e'), ('d/s', 'ne'), ('d/s', 'file'), ('d', 'd/s/in'),
             ('d/f', '/v/b/new'), ('d/s', '/v/b/new'), ('d/l', '/v/b/new'), ('.', 'new'), ('d/.', 'new'), ('d/ld/', 'new'), ('d/ld', 'new'), ('d/dl', 'new'),
             ('/v', 'new'), ('/v/b', '/v/c'), ('missing', 'new'), ('d/f', 'missing/new'), ('d/f', 'd/f'), ('d/l', 'd/f'), ('d/f', 'd/l'), ('d/f', 'd/dl'),
             ('d/s', 'd/ld'), ('d/s/', 'new'), ('d/s', 'new/'), ('d/f', 'new/'), ('e', 'st/e'), ('d/f', '/a/lv/moved'), ('d/s', 'd/s'), ('d/f', ''), ('', 'new'),
             ('e', 'd/s/deep/er'), ('d/s/deep', 'e'), ('file', 'd/ld'), ('d/ld', 'file')]
    for a, b in pairs:
        ops.append(['os.rename', a, b])
        ops.append(['shutil.move', a, b])
    return ops


def cmd_corpus():
    e = {'HOME': '/h'}
    base = [W.d('/h'), W.d('/v/d'), W.f('/v/d/foo', 'DATA', 0o640, 1000), W.d('/v/d/dir', 0o750), W.f('/v/d/dir/in', 'IN', 0o600, 1001),
            W.l('/v/d/lnk', '/h', 1002), W.l('/v/d/dang', 'nowhere', 1003), W.d('/h/w'), W.f('/h/w/hf', 'HF', 0o644, 1004)]
    w0 = W.W(mounts=['/', '/v'], cwd='/v/d', nodes=base)
    w1 = W.W(mounts=['/', '/v'], cwd='/v/d', nodes=base + [W.d('/v/.Trash', 0o1777)])
    w2 = W.W(mounts=['/', '/v'], cwd='/v/d', nodes=base + [W.d('/v/.Trash', 0o777), W.f('/v/.Trash-1000', 'x', 0o644, 1005)])
    out = []
    for w in (w0, w1, w2):
        out.append((w, [C('put', ['foo', 'dir', 'lnk', 'dang', 'missing', '.', '/h/w/hf'], e, cwd='/v/d'), C('list', [], e), C('restore', ['--sort', 'path', '/v/d'], e, stdin=['0-1'], cwd='/'),
                        C('rm', ['d*'], e), C('list', [], e), C('empty', ['1'], e, now='2020-01-05T00:00:00'), C('empty', [], e), C('list', [], e)]))
        out.append((w, [C('put', ['-v', '--home-fallback', 'foo', 'dir', 'lnk'], dict(e, TRASH_ENABLE_HOME_FALLBACK='1'), cwd='/v/d'), C('list', [], e)]))
        out.append((w, [C('put', ['foo'], e, cwd='/v/d'), {'op': ['write', '/v/d/foo', 'w', 'SECOND']}, C('put', ['foo'], e, cwd='/v/d', now='2020-01-03T00:00:00'),
                        {'op': ['write', '/v/d/foo', 'w', 'THIRD']}, C('restore', ['--overwrite', '--sort', 'path'], e, stdin=['1'], cwd='/v/d'), C('list', [], e)]))
    return out


def norm_result(r):
    if isinstance(r, dict) and 'out' in r:
        r = dict(r)
        r['out'] = sorted(r['out'].split('\n'))
        r['err'] = sorted(r['err'].split('\n'))
        r.pop('ops', None)
        return r
    if isinstance(r, list) and r and r[0] == 'ok' and isinstance(r[1], list):
        return ['ok', sorted(r[1])]
    return r


def norm_op(op, r):
    # the size of a directory is a property of the file system, not of POSIX
    if op and op[0] == 'os.path.getsize' and r and r[0] == 'ok' and r[1] not in (1, 3, 2, 4, 7):
        return ['ok', 'dir-or-link-size']
    return r


def run_model_scenario(world, steps):
    fac = commands.install_model_backend()
    m = W.build_model(world)
    ns = {'os': fac.os, 'shutil': fac.shutil, 'open': fac.open}
    res = []
    for st in steps:
        if 'cmd' in st:
            res.append(commands.run_on_model(m, st).as_dict())
        else:
            fac.set_world(m, {}, 1000)
            res.append(commands.call_op(ns, st['op']))
    return res, m.snap('/')


def main(tier='quick'):
    t0 = time.time()
    if not realfs.available():
        print('MODEL: real-fs backend unavailable here (needs CAP_SYS_ADMIN for unshare/mount/chroot): validation skipped')
        return 0
    scenarios = []
    bw = base_world()
    for op in op_corpus():
        scenarios.append({'world': bw, 'steps': [{'op': op}]})
    for w, steps in cmd_corpus():
        scenarios.append({'world': w, 'steps': steps})
    real = realfs.run_batch(scenarios, timeout=1200)
    bad = 0
    for scn_, rr in zip(scenarios, real):
        if rr['error']:
            print('MODEL: real backend error: %s' % rr['error'][-400:])
            bad += 1
            continue
        mres, msnap = run_model_scenario(scn_['world'], scn_['steps'])
        rres = [norm_result(x) for x in rr['steps']]
        mres = [norm_result(json.loads(json.dumps(x))) for x in mres]
        op0 = scn_['steps'][0].get('op')
        rres = [norm_op(op0, x) for x in rres]
        mres = [norm_op(op0, x) for x in mres]
        rsnap = W.unjsonable(rr['snap'])
        desc = scn_['steps'][0].get('op') or [s.get('cmd') or s.get('op') for s in scn_['steps']]
        if mres != rres:
            bad += 1
            for i, (a, b) in enumerate(zip(mres, rres)):
                if a != b:
                    print('MODEL MISMATCH result %r step %d:\n   model %r\n   real  %r' % (desc, i, a, b))
                    break
        elif msnap != rsnap and not (op0 and op0[0] in ('shutil.rmtree', 'shutil.move') and mres[0][0] != 'ok'):
            # (a failing recursive library call stops at a point that depends on the directory order,
            #  which POSIX leaves unspecified: tmpfs lists newest first, the model oldest first)
            bad += 1
            print('MODEL MISMATCH tree after %r: %r' % (desc, W.diff_snaps(msnap, rsnap)[:6]))
    print('MODEL: %d scenarios (%d single operations, %d command scenarios), %d mismatches, %.1fs' % (
        len(scenarios), len(op_corpus()), len(cmd_corpus()), bad, time.time() - t0))
    return 0 if bad == 0 else 3


if __name__ == '__main__':
    sys.exit(main())

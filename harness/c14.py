"""C14 -- no purge without consent: --dry-run and a negative answer change nothing."""
from vf import rt, scen, world as W
from vf.commands import C
from vf.runner import CH
from harness import common as K

PARTITION = None
MOD = 'harness.c14'
META = {
    'level': 'other',
    'explanation': 'Bounded symbolic checking with CrossHair/z3. K_reply: the real parse_reply over ALL reply strings up to '
                   'the bound (consent iff the reply begins with y/Y) and Guard.ask_the_user with a symbolic reply. W: the '
                   'real trash-empty main() on the PosixModel: run A with --dry-run and run B without on an identical '
                   'clone, over symbolic selectors (DAYS, --trash-dir, -v, trash content); and interactive runs with a '
                   'reply from a table incl. empty reply and EOF, tty on/off.',
    'assumptions': ['PosixModel fidelity (./check MODEL)', 'stdin/tty are stubs'],
}


def k_reply(reply: str) -> str:
    """
    pre: len(reply) <= (PARTITION or 4)
    post: _ == ''
    """
    rt.begin()
    from trashcli.empty.parse_reply import parse_reply
    got = parse_reply(reply)
    want = len(reply) > 0 and (reply[0] == 'y' or reply[0] == 'Y')
    if bool(got) != want:
        return rt.fail('C14:consent-misparsed', 'parse_reply(%r) = %r' % (reply, got))
    return rt.ok()


class _In(object):
    def __init__(self, reply):
        self.reply = reply

    def read_input(self, prompt):
        return self.reply


def k_guard(reply: str, interactive: bool) -> str:
    """
    pre: len(reply) <= 3
    post: _ == ''
    """
    rt.begin()
    from trashcli.empty.guard import Guard
    from trashcli.empty.user import User
    from trashcli.empty.parse_reply import parse_reply
    from trashcli.empty.prepare_output_message import prepare_output_message
    dirs = [('trash_dir_found', ('/t', '/'))]
    res = Guard(User(prepare_output_message, _In(reply), parse_reply)).ask_the_user(interactive, dirs)
    consent = (not interactive) or (len(reply) > 0 and reply[0] in 'yY')
    got_dirs = list(res.trash_dirs)
    if consent:
        if not res.ok_to_empty or got_dirs != dirs:
            return rt.fail('C14:consent-ignored', 'reply %r interactive=%r -> %r' % (reply, interactive, res))
    else:
        if res.ok_to_empty or got_dirs:
            return rt.fail('C14:purge-without-consent', 'reply %r -> ok_to_empty=%r dirs=%r' % (reply, res.ok_to_empty, got_dirs))
    return rt.ok()


DAYS = [None, 0, 1, 7]
TDOPT = [None, '/v/.Trash-1000', '/x/custom']
REPLIES = ['y', 'Y', 'yes', 'n', 'N', '', ' y', 'no', 'ok', None, 'Yikes', '\ty', '1']
INTER = ['-i', 'tty', '-i+tty', 'tty+-f', 'none', 'tty-stdout-piped', 'tty-stdin-piped', '-f then -i', '-i then -f', '-fi', '--interactive']
NINTER = len(INTER)
NOW = '2020-06-15T12:00:00'


def make_world(orphans_only=False):
    nodes = [W.d('/h'), W.d('/v/.Trash', 0o1777), W.f('/v/keep', 'KEEP', 0o644, 800)] + K.sentinels('/v/out')
    if orphans_only:
        # no trash directory holds a single .trashinfo: only payloads without info (what crashed runs or other tools
        # leave). They are purged like everything else - so they need the same consent
        for td in ('/h/.local/share/Trash', '/v/.Trash/1000', '/v/.Trash-1000'):
            nodes += [W.d(td, 0o700), W.d(td + '/info', 0o700), W.d(td + '/files', 0o700), W.f(td + '/files/thesis.odt', 'THESIS', 0o644, 2300),
                      W.d(td + '/files/photos'), W.f(td + '/files/photos/1.jpg', 'JPG', 0o644, 2301)]
        return W.W(mounts=K.MOUNTS, cwd='/v', nodes=nodes)
    nodes += K.trashed('/h/.local/share/Trash', 'old', '/h/w/old', '2020-06-01T00:00:00', 'dir', 2000)
    nodes += K.trashed('/h/.local/share/Trash', 'new', '/h/w/new', '2020-06-15T11:00:00', 'file', 2020)
    nodes += K.trashed('/v/.Trash/1000', 'mid', 'w/mid', '2020-06-10T00:00:00', 'link-dir', 2040)
    nodes += K.trashed('/v/.Trash-1000', 'anc', 'w/anc', '1999-01-01T00:00:00', 'file', 2060)
    # payloads that are symbolic links whose target does not resolve from inside files/ (a trashed relative link,
    # an orphan link): they exist (lexists) although exists() says no
    nodes += K.trashed('/h/.local/share/Trash', 'dang', '/h/w/dang', '2020-05-01T00:00:00', 'dangling', 2100)
    nodes += [W.l('/v/.Trash-1000/files/orphanlink', 'nowhere', 2203), W.l('/x/custom/files/rel', '../w/gone.txt', 2204),
              W.f('/x/custom/info/rel.trashinfo', K.info_text('/x/w/rel', '2020-06-01T00:00:00'), 0o600, 2205)]
    nodes += K.trashed('/x/custom', 'cus', '/x/w/cus', '2020-06-14T11:59:59', 'file', 2080)
    # (an orphan whose name differs only in letter case from an entry the same run removes)
    nodes += [W.f('/v/.Trash-1000/files/ANC', 'ORPHAN-ANC', 0o644, 2210), W.f('/h/.local/share/Trash/files/Old', 'ORPHAN-Old', 0o644, 2211)]
    nodes += [W.f('/v/.Trash-1000/files/orphan', 'ORPHAN', 0o644, 2200), W.d('/v/.Trash-1000/files/orphandir'),
              W.f('/v/.Trash-1000/files/orphandir/in', 'IN', 0o644, 2201),
              W.f('/v/.Trash-1000/info/lone.trashinfo', K.info_text('w/lone', '1990-01-01T00:00:00'), 0o600, 2202)]
    return W.W(mounts=K.MOUNTS, cwd='/v', nodes=nodes)


def _dry(days, td, verbose):
    with rt.untraced():
        rt.begin(('dry-run', DAYS[days], TDOPT[td], verbose))
        world = make_world()
        args = ['-v'] * verbose
        if TDOPT[td]:
            args += ['--trash-dir', TDOPT[td]]
        if DAYS[days] is not None:
            args.append(str(DAYS[days]))
        label = 'days=%r:trash-dir=%r' % (DAYS[days], TDOPT[td])
        ma, ra = scen.run_model(world, [{'snap': '/'}, C('empty', ['--dry-run'] + args, scen.env(), now=NOW, cwd='/v'), {'snap': '/'}])
        mb, rb = scen.run_model(world, [{'snap': '/'}, C('empty', args, scen.env(), now=NOW, cwd='/v'), {'snap': '/'}])
        if ra[1]['exc'] or rb[1]['exc']:
            return rt.fail('C14:traceback:' + label, repr((ra[1]['exc'], rb[1]['exc'])))
        if ra[2] != ra[0]:
            return rt.fail('C14:dry-run-changed-world:' + label, repr(scen.delta(ra[0], ra[2]))[:400])
        printed = sorted(ln[len('would remove '):] for ln in K.lines(ra[1]['out']) if ln.startswith('would remove '))
        other = [ln for ln in K.lines(ra[1]['out']) if not ln.startswith('would remove ')]
        if other:
            return rt.fail('C14:dry-run-unexpected-output:' + label, repr(other[:3]))
        removed, added, changed = scen.delta(rb[0], rb[2])
        if added or changed:
            return rt.fail('C14:real-run-collateral:' + label, repr((sorted(added), sorted(changed)))[:300])
        # top-most removed nodes
        tops = sorted(p for p in removed if not any(q != p and scen.is_under(p, q) for q in removed))
        # dry run may print paths that do not exist (payload of a lone info): compare on existing ones
        printed_existing = sorted(p for p in printed if scen.sub(ra[0], p) is not None)
        if printed_existing != tops:
            return rt.fail('C14:dry-run-differs-from-real-run:' + label, 'dry run printed %r; real run removed %r' % (printed, tops))
        return rt.ok()


def _inter(inter, reply, days, envx=None, orphans_only=False):
    with rt.untraced():
        rt.begin(('interactive', INTER[inter], REPLIES[reply], DAYS[days], envx, orphans_only))
        world = make_world(orphans_only)
        mode = INTER[inter]
        args = []
        if mode in ('-f then -i', '-i then -f', '-fi', '--interactive'):
            # the last of -f / -i decides (as for rm); the long spelling is the same option
            args += {'-f then -i': ['-f', '-i'], '-i then -f': ['-i', '-f'], '-fi': ['-fi'], '--interactive': ['--interactive']}[mode]
        else:
            if '-i' in mode:
                args.append('-i')
            if '-f' in mode:
                args.append('-f')
        if DAYS[days] is not None:
            args.append(str(DAYS[days]))
        rp = REPLIES[reply]
        stdin = [] if rp is None else [rp]
        tty = 'tty' in mode
        if mode == 'tty-stdout-piped':
            tty = [0, 2]
        elif mode == 'tty-stdin-piped':
            tty = [1, 2]
        step = C('empty', args, scen.env(), stdin=stdin, now=NOW, cwd='/v', tty=tty)
        names = []
        if envx:
            # undocumented environment variables the run consults, set to 0 / no: they must not stand for consent
            names = scen.consulted_unknown_env(world, dict(step, stdin=list(stdin)))
            if not names:
                return rt.ok()
            step = dict(step, env=dict(step['env'], **{n: envx for n in names}))
        m, res = scen.run_model(world, [{'snap': '/'}, step, {'snap': '/'}])
        before, r, after = res
        asks = ('-i' in mode or (tty is True) or (tty and 0 in tty)) and '-f' not in mode
        if mode in ('-f then -i', '-fi', '--interactive'):
            asks = True
        elif mode == '-i then -f':
            asks = False
        consent = (not asks) or (rp is not None and rp[:1] in ('y', 'Y'))
        label = 'mode=%s:reply=%r' % (mode, rp) + (':env-%s=%s' % ('+'.join(names), envx) if envx else '') + (':only-orphans-in-the-trash' if orphans_only else '')
        if not consent:
            if after != before:
                return rt.fail('C14:purged-without-consent:' + label, repr(scen.delta(before, after)[0])[:300])
            return rt.ok()
        if r['exc']:
            return rt.fail('C14:traceback:' + label, r['exc'])
        if after == before:
            return rt.fail('C14:consent-given-nothing-purged:' + label, repr(r)[:300])
        return rt.ok()


def w_inter_env(inter: int, reply: int, ev: int) -> str:
    """
    pre: 0 <= inter < NINTER and 0 <= reply < 4 and 0 <= ev < 2
    post: _ == ''
    """
    return _inter(rt.sel(inter, NINTER), rt.of([3, 5, 9, 0], reply), 0, ['0', 'no'][rt.sel(ev, 2)])


def w_dry(days: int, td: int, verbose: int) -> str:
    """
    pre: 0 <= days < 4 and 0 <= td < 3 and 0 <= verbose < 3
    post: _ == ''
    """
    return _dry(rt.sel(days, 4), rt.sel(td, 3), rt.sel(verbose, 3))


def w_inter(inter: int, reply: int, days: int) -> str:
    """
    pre: 0 <= inter < NINTER and 0 <= reply < 13 and 0 <= days < 4
    post: _ == ''
    """
    return _inter(rt.sel(inter, NINTER), rt.sel(reply, 13), rt.sel(days, 4))


def w_inter_orphans(inter: int, reply: int, days: int) -> str:
    """
    pre: 0 <= inter < NINTER and 0 <= reply < 13 and 0 <= days < 4
    post: _ == ''
    """
    return _inter(rt.sel(inter, NINTER), rt.sel(reply, 13), rt.sel(days, 4), None, True)


def obligations(tier):
    from harness import kpair
    return kpair.obligations(tier) + [
        CH('K_reply_all_strings', MOD, 'k_reply', timeout=120 if tier == 'quick' else 600, partitions=[4 if tier == 'quick' else 8], engine='K', regime='traced',
           encodes=['trashcli.empty.parse_reply.parse_reply'], bounds='reply: any str, len<=%d' % (4 if tier == 'quick' else 8)),
        CH('K_guard', MOD, 'k_guard', timeout=180, engine='K', regime='traced',
           encodes=['Guard.ask_the_user', 'User.do_you_wanna_empty_trash_dirs', 'parse_reply', 'prepare_output_message'],
           bounds='reply: any str len<=3; interactive symbolic', stubs=['Input -> fixed reply']),
        CH('W_dry_run_vs_real', MOD, 'w_dry', timeout=300, engine='W', regime='selector', encodes=K.EMPTY_FUNCS, stubs=K.STUBS,
           bounds='4 DAYS x 3 --trash-dir x 3 -v over a trash with 5 entries in 4 dirs, orphans, lone info'),
        CH('W_undocumented_environment_variables_set_to_0_or_no', MOD, 'w_inter_env', timeout=600, engine='W', regime='selector', encodes=K.EMPTY_FUNCS, stubs=K.STUBS + ['os.environ records the names looked up'],
           bounds='every environment variable the run consults beyond the documented ones set to 0 / no; 11 interactive modes x replies n, empty, EOF, y'),
        CH('W_interactive', MOD, 'w_inter', timeout=600, engine='W', regime='selector', encodes=K.EMPTY_FUNCS, stubs=K.STUBS,
           bounds='11 interactive modes (-i, tty, both, tty with -f, none, terminal with stdout piped, terminal with stdin piped) x 13 replies incl. empty and EOF x 4 DAYS'),
        CH('W_interactive_only_orphans_in_the_trash', MOD, 'w_inter_orphans', timeout=600, engine='W', regime='selector', encodes=K.EMPTY_FUNCS, stubs=K.STUBS,
           bounds='the same modes x replies x DAYS over trash directories that hold no .trashinfo at all, only payloads without info'),
    ]

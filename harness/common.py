"""Shared world pieces for the whole-command (engine W) harnesses."""
import urllib.parse

from vf import rt, scen, world as W
from vf.commands import C

UID = 1000
MOUNTS = ['/', '/v']

KINDS = ['file', 'empty', 'dir', 'link-file', 'link-dir', 'dangling']

PUT_FUNCS = ['trashcli.put.main.main', 'TrashPutCmd.run_put', 'Parser.parse_args', 'Context.trash_each',
             'Trasher.trash_single', 'should_skipped_by_specs', 'FileTrasher.trash_file',
             'TrashDirectoriesFinder.possible_trash_directories_for', 'Janitor.trash_file_in',
             'SecurityCheck.check_trash_dir_is_secure', 'TrashDirChecker.file_could_be_trashed_in',
             'TrashDirCreator.make_candidate_dirs', 'TrashInfoCreator.make_trashinfo_data',
             'OriginalLocation.for_file', 'format_trashinfo', 'InfoFilePersister.try_persist',
             'create_trashinfo_basename', 'Suffix.suffix_for_index', 'PutTrashDir.try_trash', 'move_file',
             'RealFs.*', 'trashcli.fs.atomic_write/move/remove_file', 'VolumeOfImpl.volume_of']
RESTORE_FUNCS = ['trashcli.restore.main.main', 'RestoreCmd.run', 'RestoreArgParser.parse_restore_args',
                 'RunRestoreAction.run_action', 'TrashDirectories1.all_trash_directories', 'InfoFiles.all_info_files',
                 'TrashedFiles.all_trashed_files', 'parse_original_location', 'parse_deletion_date',
                 'TrashedFile.original_location_matches_path', 'sort_files', 'HandlerImpl.handle_trashed_files',
                 'RestoreAskingTheUser.restore_asking_the_user', 'parse_indexes', 'Restorer.restore_trashed_file',
                 'trashcli.fs.mkdirs/move/remove_file']
LIST_FUNCS = ['trashcli.list.main.main', 'ListCmd.run', 'ListTrash.list_all_trash', 'TrashDirsSelector.select',
              'TrashDirsScanner.scan_trash_dirs', 'TopTrashDirRules.valid_to_be_read', 'TrashDirReader.list_trashinfo',
              'parse_path', 'maybe_parse_deletion_date']
EMPTY_FUNCS = ['trashcli.empty.main.main', 'EmptyCmd.run_cmd', 'empty Parser.parse', 'EmptyAction.run_action',
               'Guard.ask_the_user', 'parse_reply', 'Emptier.do_empty', 'Emptier.files_to_delete',
               'DeleteAccordingDate.ok_to_delete', 'older_than', 'Clock.get_now_value', 'TrashDirReader.list_orphans',
               'ExistingFileRemover.remove_file_if_exists', 'TrashDirsScanner.scan_trash_dirs']
RM_FUNCS = ['trashcli.rm.main.main', 'RmCmd.run', 'Filter.matches', 'ListTrashinfos.list_from_volume_trashdir',
            'CleanableTrashcan.delete_trash_info_and_backup_copy', 'TrashDirsScanner.scan_trash_dirs']
STUBS = ['PosixModel syscalls (vf/posix_model.py)',
         'CPython posixpath/genericpath/shutil/os.makedirs/os.walk re-executed over the modelled syscalls',
         'clock', 'random', 'stdin', 'tty', 'mount table (os_mount_points)', 'uid']


def entry_nodes(kind, path, tag=1000, out='/v/out'):
    """nodes of one payload; every payload is distinguishable (content / mtime tag)"""
    k = KINDS[kind] if isinstance(kind, int) else kind
    t = str(tag)
    if k == 'file':
        return [W.f(path, 'DATA-' + t, 0o640, tag)]
    if k == 'empty':
        return [W.f(path, '', 0o600, tag)]
    if k == 'dir':
        return [W.d(path, 0o750), W.f(path + '/a', 'A-' + t, 0o604, tag + 1), W.d(path + '/sd', 0o700),
                W.f(path + '/sd/b', 'B-' + t, 0o644, tag + 2), W.l(path + '/ln', out + '/target.txt', tag + 3),
                W.l(path + '/dl', out + '/tdir', tag + 4)]
    if k == 'link-file':
        return [W.l(path, out + '/target.txt', tag)]
    if k == 'link-dir':
        return [W.l(path, out + '/tdir', tag)]
    if k == 'dangling':
        return [W.l(path, 'nowhere-' + t, tag)]
    raise ValueError(k)


def sentinels(out='/v/out'):
    return [W.f(out + '/target.txt', 'TARGET', 0o644, 904), W.d(out + '/tdir', 0o555),  # (a mode a 'helpful' chmod u+w would change)
            W.f(out + '/tdir/t', 'T', 0o644, 905)]


def info_text(path_value, date='2020-01-01T00:00:00'):
    return '[Trash Info]\nPath=%s\nDeletionDate=%s\n' % (path_value, date)


def quote(p):
    return urllib.parse.quote(p, '/')


def trashed(td, name, path_value, date, kind='file', tag=2000, raw_info=None):
    """a complete pair already in trash dir ``td``"""
    nodes = [W.d(td, 0o700), W.d(td + '/files', 0o700), W.d(td + '/info', 0o700)]
    nodes += entry_nodes(kind, td + '/files/' + name, tag)
    nodes.append(W.f(td + '/info/' + name + '.trashinfo',
                     raw_info if raw_info is not None else info_text(path_value, date), 0o600, tag + 9))
    return nodes


TOP_STATES = ['absent', 'sticky', 'nonsticky', 'link-sticky', 'link-nonsticky', 'file', 'setgid-nonsticky', 'setuid-nonsticky', 'sticky-setgid']


def top_state_nodes(vol, state):
    """nodes for $vol/.Trash in the given state; returns (nodes, real dir holding $uid or None)"""
    ts = TOP_STATES[state] if isinstance(state, int) else state
    t = vol.rstrip('/') + '/.Trash'
    if ts == 'absent':
        return [], None
    if ts == 'sticky':
        return [W.d(t, 0o1777)], t
    if ts == 'nonsticky':
        return [W.d(t, 0o777)], t
    if ts == 'link-sticky':
        return [W.d(vol.rstrip('/') + '/st', 0o1777), W.l(t, vol.rstrip('/') + '/st', 907)], vol.rstrip('/') + '/st'
    if ts == 'link-nonsticky':
        return [W.d(vol.rstrip('/') + '/ns', 0o777), W.l(t, 'ns', 908)], vol.rstrip('/') + '/ns'
    if ts == 'file':
        return [W.f(t, 'not a dir', 0o644, 909)], None
    if ts == 'setgid-nonsticky':
        return [W.d(t, 0o2777)], t
    if ts == 'setuid-nonsticky':
        return [W.d(t, 0o4755)], t
    if ts == 'sticky-setgid':
        return [W.d(t, 0o3777)], t
    raise ValueError(ts)


def secure(state):
    ts = TOP_STATES[state] if isinstance(state, int) else state
    return ts in ('sticky', 'sticky-setgid')


def lines(text):
    return [ln for ln in text.split('\n') if ln != '']


def listing(results_out):
    """parse 'trash-list' stdout -> sorted list of (date, path)"""
    out = []
    for ln in lines(results_out):
        out.append((ln[:19], ln[20:]))
    return sorted(out)


import re as _re

_LISTING_RE = _re.compile(r'^ *(\d+) (\d{4}-\d\d-\d\d \d\d:\d\d:\d\d|None) ', _re.M)


def restore_listing(out):
    """parse the numbered listing of trash-restore -> [(index, date, path)] in printed order;
    a path may contain newlines, an undated entry prints 'None'"""
    heads = list(_LISTING_RE.finditer(out))
    res = []
    for i, m in enumerate(heads):
        end = heads[i + 1].start() if i + 1 < len(heads) else out.find('What file to restore')
        if end < 0:
            end = len(out)
        p = out[m.end():end]
        if p.endswith('\n'):
            p = p[:-1]
        res.append((int(m.group(1)), m.group(2), p))
    return res

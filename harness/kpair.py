"""Shared kernel: info/<N>.trashinfo  <->  files/<N>  (trashcli.lib.path_of_backup_copy).

Every command pairs a .trashinfo with its payload through this one function (trash-put: destination of the move
and the "payload already there?" probe; list/restore/empty/rm: which payload belongs to an info file), so the
obligations below are part of C04, C11, C12, C13 and C20.

CrossHair 0.0.110 note: ``sliced == other`` mis-evaluates to False when ``sliced`` is a negative-stop slice
(``s[:-10]``) of a symbolic concatenation, while ``other == sliced`` is evaluated correctly (measured; the
realised strings are equal).  The comparisons below therefore keep the harness-built string on the LEFT; the
formulation was validated against four mutants of the function ([:-9], .replace, .rstrip, .strip).
"""
from vf import rt
from vf.runner import CH

PARTITION = None
MOD = 'harness.kpair'
MIDS = [('',), ('.trashinfo',), ('.trashinfo.trashinfo',), ('.trash',), ('trashinfo',), ('.TRASHINFO',), ('.trashinfo_1',)]


def k_backup_path(name: str) -> str:
    """
    pre: len(name) <= (PARTITION or 5)
    pre: '/' not in name and chr(0) not in name
    post: _ == ''
    """
    rt.begin()
    from trashcli.lib.path_of_backup_copy import path_of_backup_copy
    got = path_of_backup_copy('/t/info/' + name + '.trashinfo')
    want = '/t/files/' + name
    if want == got:
        return rt.ok()
    return rt.fail('PAIR:payload-path', 'path_of_backup_copy(/t/info/%r.trashinfo) = %r' % (name, got))


def k_backup_struct(pre: str, mid: int, post: str) -> str:
    """
    pre: PARTITION is None or mid == PARTITION
    pre: len(pre) <= 1 and len(post) <= 1 and 0 <= mid < 7
    pre: '/' not in pre and '/' not in post and chr(0) not in pre and chr(0) not in post
    post: _ == ''
    """
    rt.begin()
    from trashcli.lib.path_of_backup_copy import path_of_backup_copy
    name = pre + MIDS[mid][0] + post
    got = path_of_backup_copy('/t/info/' + name + '.trashinfo')
    want = '/t/files/' + name
    if want == got:
        return rt.ok()
    return rt.fail('PAIR:payload-path:name-containing-suffix', 'path_of_backup_copy(/t/info/%r.trashinfo) = %r' % (name, got))


def obligations(tier):
    n = 5 if tier == 'quick' else 9
    return [
        CH('K_backup_path_all_names', MOD, 'k_backup_path', timeout=120 if tier == 'quick' else 900, partitions=[n], engine='K', regime='traced',
           encodes=['trashcli.lib.path_of_backup_copy.path_of_backup_copy'], bounds="info base name: any str without '/', len<=%d" % n),
        CH('K_backup_path_names_containing_the_suffix', MOD, 'k_backup_struct', timeout=300, partitions=list(range(7)), engine='K', regime='traced',
           encodes=['trashcli.lib.path_of_backup_copy.path_of_backup_copy'],
           bounds="info base name = pre + M + post, pre/post: any str without '/', len<=1, M in {'', .trashinfo, .trashinfo.trashinfo, .trash, trashinfo, .TRASHINFO, .trashinfo_1}"),
    ]

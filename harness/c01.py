"""C01 -- trash-put conserves data: each argument ends fully trashed or untouched."""
import posixpath

from vf import rt, scen, world as W
from vf.commands import C
from vf.runner import CH

PARTITION = None
MOD = 'harness.c01'
K_EMPTY = ['trashcli.empty.main.main', 'EmptyCmd.run_cmd', 'DeleteAccordingDate.ok_to_delete', 'TrashDirReader.list_orphans']

META = {
    'level': 'other',
    'explanation': 'Bounded symbolic checking with CrossHair/z3 over the real trash-put code. K1: the dot-entry '
                   'kernel should_skipped_by_specs for ALL strings up to the bound. W*: the real trash-put main() '
                   'executed on the PosixModel (CPython shutil/posixpath re-executed over the modelled syscalls) '
                   'for every valuation of symbolic selectors (entry kind, argument spelling, options, trash '
                   'directory states); the oracle is a snapshot predicate (fully trashed xor untouched).',
    'assumptions': ['PosixModel is a faithful model of the Linux syscalls used (validated differentially by '
                    './check MODEL)', 'names in whole-command harnesses are representatives (DESIGN 3.7)',
                    'clock, randomness, stdin, mount table are stubs'],
}

# ------------------------------------------------------------------ K1 kernel


def k1_dot(path: str) -> str:
    """
    pre: len(path) <= (PARTITION or 6)
    post: _ == ''
    """
    rt.begin()
    from trashcli.put.core.trashee import should_skipped_by_specs
    skipped = should_skipped_by_specs(path)
    # reference: the last non-empty '/'-separated component designates the entry
    i = len(path)
    while i > 0 and path[i - 1] == '/':
        i -= 1
    j = i
    while j > 0 and path[j - 1] != '/':
        j -= 1
    last = path[j:i]
    is_dot = (last == '.') or (last == '..')
    if is_dot and not skipped:
        return rt.fail('C01:dot-entry-not-refused:trailing-slash' if i < len(path) else 'C01:dot-entry-not-refused',
                       'should_skipped_by_specs(%r) is False but the argument designates %r' % (path, last))
    if skipped and not is_dot:
        return rt.fail('C01:non-dot-refused', 'should_skipped_by_specs(%r) refuses a non-dot entry' % (path,))
    return rt.ok()


# -------------------------------------------------------------- whole command
KINDS = ['file', 'empty', 'dir', 'link-file', 'link-dir', 'dangling']
# (argument, designated absolute path, family)
SPELLINGS = [
    ('x', '/v/d/x', 'entry'), ('./x', '/v/d/x', 'entry'), ('/v/d/x', '/v/d/x', 'entry'),
    ('sub/../x', '/v/d/x', 'entry'), ('x/', '/v/d/x', 'entry'), ('x//', '/v/d/x', 'entry'),
    ('/v/lp/x', '/v/d/x', 'entry'), ('../d/x', '/v/d/x', 'entry'), ('.//x', '/v/d/x', 'entry'),
    ('.', '/v/d', 'dot'), ('..', '/v', 'dot'), ('./', '/v/d', 'dot'), ('../', '/v', 'dot'),
    ('sub/.', '/v/d/sub', 'dot'), ('sub/..', '/v/d', 'dot'), ('sub/./', '/v/d/sub', 'dot'),
    ('./.', '/v/d', 'dot'), ('/v/d/.', '/v/d', 'dot'), ('sub/../', '/v/d', 'dot'),
    ('/v/n', '/v/n', 'mount'), ('/v/n/', '/v/n', 'mount'), ('../n', '/v/n', 'mount'),
    # the mount point reached through a symlinked parent directory / through a symlink to it, spelled with a slash
    ('lv/n', '/v/n', 'mount'), ('/h/lv/n/', '/v/n', 'mount'), ('/v/d/ln/', '/v/n', 'mount'),
]
NSP = len(SPELLINGS)
MODES = [([], []), (['-f'], []), (['-i'], ['y']), (['-i'], ['n']), (['-i'], ['']), (['-i'], []),
         (['-i'], ['Yes']), (['-f', '-i'], ['no'])]
TRASHDIR_OPT = [None, '/v/td', '/h/td']
FALLBACK = [(False, None), (True, None), (False, '1'), (True, '1')]
TOP_STATES = ['absent', 'sticky', 'nonsticky', 'link-sticky', 'link-nonsticky', 'file']
ALT_STATES = ['absent', 'dir', 'file']
PRE = ['none', 'pair', 'orphan', 'lone-info', 'long-name', 'long-name-orphan-file', 'long-name-orphan-dir', 'dot-trashinfo-name',
       'dot-trashinfo-name-collision']
TINAME = 'holiday.trashinfo'
LONG = 'L' * 250
LONG_T1 = 'L' * 238 + '_1'  # payload name of the first truncated info name


def entry_nodes(kind, path='/v/d/x'):
    k = KINDS[kind]
    if k == 'file':
        return [W.f(path, 'DATA-x', 0o640, 1000)]
    if k == 'empty':
        return [W.f(path, '', 0o600, 1001)]
    if k == 'dir':
        return [W.d(path, 0o750), W.f(path + '/a', 'A', 0o604, 1002), W.d(path + '/sd', 0o700),
                W.f(path + '/sd/b', 'B', 0o644, 1003), W.l(path + '/ln', '../out/target.txt', 1004)]
    if k == 'link-file':
        return [W.l(path, '/v/out/target.txt', 1005)]
    if k == 'link-dir':
        return [W.l(path, '../out/tdir', 1006)]
    return [W.l(path, 'nowhere', 1007)]


HOMES = ['/h', '/h(1', '/h[x', '/h+y' + chr(92), '/h $0*']  # $HOME is data, never a pattern


NAMES2 = ['x', '100%.txt', 'a%sb', '%(x)s %d', "q'uo\"te", 'new\nline', '{0}{}']  # names are data, never format strings


def make_world(kind, top, alt, pre, home=0, nm=0):
    name = LONG if PRE[pre].startswith('long-name') else (TINAME if PRE[pre].startswith('dot-trashinfo-name') else NAMES2[nm])
    nodes = [W.d('/h'), W.d(HOMES[home]), W.d('/v/d'), W.d('/v/d/sub'), W.f('/v/d/sub/keep', 'K', 0o644, 900),
             W.l('/v/lp', '/v/d', 901), W.f('/v/n/inner', 'INNER', 0o644, 902), W.d('/v/n/nd'),
             W.f('/v/n/nd/deep', 'DEEP', 0o644, 903),
             W.f('/v/out/target.txt', 'TARGET', 0o644, 904), W.f('/v/out/tdir/t', 'T', 0o644, 905),
             W.f('/v/d/other', 'OTHER', 0o644, 906),
             W.l('/v/d/lv', '/v', 917), W.l('/h/lv', '/v', 918), W.l('/v/d/ln', '/v/n', 919)]
    nodes += entry_nodes(kind, '/v/d/' + name)
    ts = TOP_STATES[top]
    tdirs = []
    if ts == 'sticky':
        nodes.append(W.d('/v/.Trash', 0o1777))
        tdirs.append('/v/.Trash/1000')
    elif ts == 'nonsticky':
        nodes.append(W.d('/v/.Trash', 0o777))
        tdirs.append('/v/.Trash/1000')
    elif ts == 'link-sticky':
        nodes += [W.d('/v/st', 0o1777), W.l('/v/.Trash', '/v/st', 907)]
        tdirs.append('/v/st/1000')
    elif ts == 'link-nonsticky':
        nodes += [W.d('/v/ns', 0o777), W.l('/v/.Trash', 'ns', 908)]
        tdirs.append('/v/ns/1000')
    elif ts == 'file':
        nodes.append(W.f('/v/.Trash', 'not a dir', 0o644, 909))
    a = ALT_STATES[alt]
    if a == 'dir':
        nodes += [W.d('/v/.Trash-1000', 0o700), W.d('/v/.Trash-1000/files', 0o700), W.d('/v/.Trash-1000/info', 0o700)]
        tdirs.append('/v/.Trash-1000')
    elif a == 'file':
        nodes.append(W.f('/v/.Trash-1000', 'not a dir', 0o644, 910))
    p = PRE[pre]
    tdirs.append('/v/td')
    for td in tdirs:
        if p in ('pair', 'orphan'):
            nodes.append(W.f(td + '/files/x', 'OLD-PAYLOAD', 0o644, 911))
        if p == 'long-name-orphan-file':
            nodes.append(W.f(td + '/files/' + LONG_T1, 'OLD-LONG', 0o644, 913))
        if p == 'long-name-orphan-dir':
            nodes += [W.d(td + '/files/' + LONG_T1), W.f(td + '/files/' + LONG_T1 + '/keep', 'OLD-IN', 0o644, 914)]
        if p == 'dot-trashinfo-name-collision':
            # a complete entry called 'holiday' whose info file has the very name of the new argument
            nodes.append(W.f(td + '/files/holiday', 'OLD-HOLIDAY', 0o644, 915))
            nodes.append(W.f(td + '/info/holiday.trashinfo', '[Trash Info]\nPath=d/holiday\nDeletionDate=2019-01-01T00:00:00\n', 0o600, 916))
        if p in ('pair', 'lone-info'):
            nodes.append(W.f(td + '/info/x.trashinfo', '[Trash Info]\nPath=d/x\nDeletionDate=2019-01-01T00:00:00\n',
                             0o600, 912))
    return W.W(mounts=['/', '/v', '/v/n'], cwd='/v/d', nodes=nodes)


def scenario(kind, sp, mode, td, fb, top, alt, pre, verbose, home=0, nm=0):
    world = make_world(kind, top, alt, pre, home, nm)
    arg, target, family = SPELLINGS[sp]
    if (PRE[pre].startswith('long-name') or PRE[pre].startswith('dot-trashinfo-name')) and family == 'entry':
        nm = LONG if PRE[pre].startswith('long-name') else TINAME
        cut = len(arg.rstrip('/'))
        arg = arg[:cut - 1] + nm + arg[cut:]
        target = target[:-1] + nm
    elif nm and family == 'entry':
        cut = len(arg.rstrip('/'))
        arg = arg[:cut - 1] + NAMES2[nm] + arg[cut:]
        target = target[:-1] + NAMES2[nm]
    opts, stdin = MODES[mode]
    args = list(opts)
    if TRASHDIR_OPT[td]:
        args += ['--trash-dir', TRASHDIR_OPT[td]]
    hf, envv = FALLBACK[fb]
    if hf:
        args.append('--home-fallback')
    args += ['-v'] * verbose
    args += ['--', arg]
    e = scen.env({'TRASH_ENABLE_HOME_FALLBACK': envv} if envv else None, home=HOMES[home])
    steps = [{'snap': '/'}, C('put', args, e, stdin=stdin, cwd='/v/d'), {'snap': '/'}]
    return world, steps, arg, target, family


def oracle(results, arg, target, family, label):
    before, res, after = results[0], results[1], results[2]
    if res.get('nonterminating'):
        return rt.fail('C01:nonterminating:' + label, 'trash-put did not terminate')
    if res['exc']:
        key = 'C01:traceback:%s:%s' % (res['exc'].split(':')[0], family)
        # an uncaught exception is a failed run; the state must still be A
    removed, added, changed = scen.delta(before, after)
    payload = scen.sub(before, target)
    only_new_dirs = (not removed and not changed and all(v[0] == 'd' for v in added.values()))
    failed = (res['exit'] != 0)
    if only_new_dirs:
        return rt.ok()  # state A: untouched, nothing new but (empty) directories
    # otherwise it must be state B, exactly
    if changed:
        return rt.fail('C01:changed-existing:%s:%s' % (family, label),
                       'arg %r: existing nodes modified: %r' % (arg, sorted(changed)[:5]))
    if payload is None:
        return rt.fail('C01:touched-without-entry:%s:%s' % (family, label),
                       'arg %r designates nothing yet the world changed: -%r +%r' % (arg, sorted(removed)[:5], sorted(added)[:5]))
    gone_ok = all(scen.is_under(p, target) for p in removed) and scen.sub(after, target) is None
    infos = [p for p, v in added.items() if v[0] != 'd' and '/info/' in p and p.endswith('.trashinfo')]
    where = []
    relinked = []
    for p in added:
        if '/files/' in p and scen.sub(after, p) == payload:
            where.append(p)
        elif '/files/' in p and payload[0] == 'l' and scen.sub(after, p)[0] == 'l' and scen.sub(after, p)[1] == payload[1]:
            relinked.append(p)
    if not where and len(relinked) == 1 and gone_ok:
        return rt.fail('C01:symlink-mtime-not-preserved:cross-device-move',
                       'arg %r: the symlink was re-created in %r by a cross-device shutil.move: target kept, modification time lost' % (arg, relinked[0]))
    stray = [p for p, v in added.items() if v[0] != 'd' and not any(scen.is_under(p, w) for w in where) and p not in infos]
    if gone_ok and len(where) == 1 and len(infos) == 1 and not stray:
        w = where[0]
        tdir = w[:w.rindex('/files/')]
        name = w[w.rindex('/files/') + 7:]
        if '/' not in name and infos[0] == tdir + '/info/' + name + '.trashinfo':
            okp, pth, date = scen.spec_parse_info(scen.sub(after, infos[0])[2])
            if not okp:
                return rt.fail('C01:unparseable-info:' + label, 'arg %r: info %r not parseable' % (arg, infos[0]))
            bn = posixpath.basename(tdir)
            topdir_kind = bn.startswith('.Trash-') or posixpath.basename(posixpath.dirname(tdir)) == '.Trash'
            if topdir_kind:
                top = posixpath.dirname(tdir) if bn.startswith('.Trash-') else posixpath.dirname(posixpath.dirname(tdir))
                if pth.startswith('/') or posixpath.normpath(posixpath.join(top, pth)) != target:
                    return rt.fail('C01:recorded-path-wrong:topdir:' + label, 'arg %r trashed in %s with Path=%r (must be relative to %s and designate %s)' % (
                        arg, tdir, pth, top, target))
            elif tdir.endswith('/.local/share/Trash') and pth != target:
                return rt.fail('C01:recorded-path-wrong:home:' + label, 'arg %r trashed in the home trash with Path=%r (must be the absolute %s)' % (arg, pth, target))
            if failed:
                return rt.fail('C01:failure-reported-but-trashed:%s:%s' % (family, label),
                               'arg %r: exit %r but the entry was moved to %r' % (arg, res['exit'], w))
            if family != 'entry':
                return rt.fail('C01:dot-or-mount-trashed:%s:%s' % (family, label),
                               'arg %r (%s) was trashed as %r instead of being refused' % (arg, family, w))
            return rt.ok()
    kind = 'reported-failure' if failed else 'reported-success'
    # what kind of half-way state: is every byte still somewhere?
    src_now = scen.sub(after, target)
    if where or relinked:
        sub = 'copy-left-in-trash:' + ('source-intact' if src_now == payload else 'source-partly-deleted' if src_now is not None else 'source-gone')
    else:
        leaves = [(q, v) for q, v in W.flatten(payload).items() if v[0] != 'd']
        have = [v for q, v in W.flatten(after).items() if v[0] != 'd']
        lost = [q for q, v in leaves if v not in have and not (v[0] == 'l' and any(h[0] == 'l' and h[1] == v[1] for h in have))]
        sub = 'data-lost' if lost else 'split'
    return rt.fail('C01:half-trashed:%s:%s:%s:%s' % (sub, family, kind, label),
                   'arg %r: neither trashed nor untouched; exit=%r exc=%r removed=%r added=%r stderr=%r' % (
                       arg, res['exit'], res['exc'], sorted(removed)[:6], sorted(added)[:8], res['err'][-300:]))


def _case(kind, sp, mode, td, fb, top, alt, pre, verbose, home=0, nm=0):
    with rt.untraced():
        world, steps, arg, target, family = scenario(kind, sp, mode, td, fb, top, alt, pre, verbose, home, nm)
        rt.begin((KINDS[kind], arg, MODES[mode], TRASHDIR_OPT[td], FALLBACK[fb], TOP_STATES[top], ALT_STATES[alt], PRE[pre], verbose, HOMES[home]))
        m, results = scen.run_model(world, steps)
        label = '%s:%s' % (KINDS[kind], arg if len(arg) < 30 else arg[:6] + '..(%d bytes)' % len(arg)) + (':HOME=%s' % HOMES[home] if home else '')
        return oracle(results, arg, target, family, label)


# ---------------------------------------------------------------- a days-limited trash-empty completing while trash-put runs
def _with_empty(k, kind, days, tdk):
    """trash-put is preempted after k system calls by a COMPLETE `trash-empty DAYS` on the same trash directory, then
    finishes.  A days-limited purge keeps whatever it cannot date, so the put must still end fully trashed (or failed
    and untouched).  (Plain trash-empty, which purges everything it sees, is outside this obligation.)"""
    from vf import sched
    from harness import common as K
    with rt.untraced():
        base = '/v/d' if tdk == 0 else '/h/w'
        nodes = [W.d('/h'), W.d(base), W.f('/v/keep', 'KEEP', 0o644, 800)] + K.sentinels('/v/out')
        nodes += K.entry_nodes(K.KINDS[kind], base + '/x', 1000)
        if tdk == 2:
            nodes += [W.d('/h/.local/share/Trash/files', 0o700), W.d('/h/.local/share/Trash/info', 0o700)]
        m = W.build_model(W.W(mounts=K.MOUNTS, cwd=base, nodes=nodes))
        before = m.snap('/')
        e = scen.env()
        d = [1, 30][days]
        procs = [sched.Proc(C('put', ['--', 'x'], e, now='2020-06-15T12:00:00', cwd=base), 'put'),
                 sched.Proc(C('empty', [str(d)], e, now='2020-06-15T12:00:00', cwd=base), 'empty')]
        rt.begin(('put-vs-empty-days', k, d, K.KINDS[kind], base))
        sched.run_schedule(m, procs, [(0, k), (1, None)])
        if len(procs[0].log) >= 80:
            return rt.fail('C01:bound-too-small', 'trash-put made %d system calls; preemption points only range over 0..79' % len(procs[0].log))
        after = m.snap('/')
        label = '%s:trash-empty %d completes after %s' % (K.KINDS[kind], d, 'some system call of trash-put')
        if procs[1].result['exc']:
            return rt.fail('C01:traceback:%s:concurrent-empty' % procs[1].result['exc'].split(':')[0], procs[1].result['exc'])
        return oracle([before, procs[0].result, after], 'x', base + '/x', 'entry', label)


def w_with_empty(k: int, kind: int, days: int, tdk: int) -> str:
    """
    pre: PARTITION is None or (days == PARTITION[0] and tdk == PARTITION[1])
    pre: 0 <= k < 80 and 0 <= kind < 6 and 0 <= days < 2 and 0 <= tdk < 3
    post: _ == ''
    """
    return _with_empty(rt.sel(k, 80), rt.sel(kind, 6), rt.sel(days, 2), rt.sel(tdk, 3))


LONELY = ['the-only-child-alone', 'the-only-child-then-its-parent', 'the-only-grandchild-then-the-grandparent', 'the-only-grandchild-alone']


def _lonely(kind, shape, sp):
    """the entry is the ONLY child of its directory (which becomes empty when it leaves); optionally that directory, or
    the directory above it, is the next argument of the same run: it must be trashed like any other, not vanish"""
    from harness import common as K
    with rt.untraced():
        rt.begin(('lonely', K.KINDS[kind], LONELY[shape], sp))
        deep = 'grand' in LONELY[shape]
        top = '/v/d/only'
        parent = top + '/sub' if deep else top
        nodes = [W.d('/h'), W.d('/v/d'), W.f('/v/d/keep', 'KEEP', 0o644, 800), W.d(top, 0o750)] + ([W.d(parent, 0o705)] if deep else [])
        nodes += K.entry_nodes(K.KINDS[kind], parent + '/x', 1000) + K.sentinels('/v/out')
        rel = parent[len('/v/d/'):] + '/x'
        first = [rel, './' + rel, parent + '/x'][sp]
        args = [first] + (['only'] if 'then' in LONELY[shape] else [])
        m, res = scen.run_model(W.W(mounts=K.MOUNTS, cwd='/v/d', nodes=nodes), [{'snap': '/'}, C('put', ['--'] + args, scen.env(), cwd='/v/d'), {'snap': '/'}])
        before, r, after = res
        label = '%s:%s' % (K.KINDS[kind], LONELY[shape])
        if r['exc']:
            return rt.fail('C01:traceback:%s:lonely' % r['exc'].split(':')[0], r['exc'])
        payload = scen.sub(before, parent + '/x')
        where = [p for p in scen.find_equal(after, payload) if '/files/' in p]
        if payload[0] == 'l' and not where:
            where = [p for p, v in W.flatten(after).items() if v[0] == 'l' and v[1] == payload[1] and '/files/' in p]
        if len(where) != 1 or scen.sub(after, parent + '/x') is not None:
            return rt.fail('C01:half-trashed:only-child:' + label, 'the entry is at %r after the run; exit %r stderr %r' % (where, r['exit'], r['err'][-200:]))
        if len(args) == 1:
            for d in ([top, parent] if deep else [top]):
                got = scen.sub(after, d)
                if got is None or got[1] != scen.sub(before, d)[1]:
                    return rt.fail('C01:changed-existing:emptied-parent-removed:' + label,
                                   'trash-put %s: the directory %s that held the entry %s' % (first, d, 'is gone' if got is None else 'changed mode'))
            if r['exit'] != 0:
                return rt.fail('C01:failure-reported-but-trashed:entry:' + label, 'exit %r' % r['exit'])
            return rt.ok()
        # the directory named second: gone from its place, in the trash under files/only, recorded, exit 0
        td = '/v/.Trash-1000'
        if scen.sub(after, top) is not None or scen.sub(after, td + '/files/only') is None or scen.sub(after, td + '/info/only.trashinfo') is None or r['exit'] != 0:
            state = 'in place' if scen.sub(after, top) is not None else ('in the trash' if scen.sub(after, td + '/files/only') is not None else 'NOWHERE')
            return rt.fail('C01:half-trashed:data-lost:emptied-directory-named-next:' + label,
                           'trash-put %s: the second argument /v/d/only is %s afterwards; exit %r stderr %r' % (' '.join(args), state, r['exit'], r['err'][-200:]))
        if scen.sub(after, td + '/files/only')[1] != 0o750:
            return rt.fail('C01:changed-existing:emptied-directory-named-next:' + label, 'mode of the trashed directory: %o' % scen.sub(after, td + '/files/only')[1])
        return rt.ok()


def w_lonely(kind: int, shape: int, sp: int) -> str:
    """
    pre: 0 <= kind < 6 and 0 <= shape < 4 and 0 <= sp < 3
    post: _ == ''
    """
    return _lonely(rt.sel(kind, 6), rt.sel(shape, 4), rt.sel(sp, 3))


def _put_during_empty(k, kind, days, tdk):
    """the other way round: `trash-empty DAYS`, busy purging old entries, is preempted after k system calls by a COMPLETE
    trash-put into the same trash directory and then finishes.  The fresh entry is younger than DAYS: the put must
    still end fully trashed.  (The reference pre-state is the world as trash-empty alone leaves it.)"""
    from vf import sched
    from harness import common as K
    with rt.untraced():
        base = '/v/d' if tdk == 0 else '/h/w'
        td = '/v/.Trash-1000' if tdk == 0 else '/h/.local/share/Trash'
        pv = (lambda p: p[3:]) if tdk == 0 else (lambda p: p)
        nodes = [W.d('/h'), W.d(base), W.f('/v/keep', 'KEEP', 0o644, 800)] + K.sentinels('/v/out')
        nodes += K.entry_nodes(K.KINDS[kind], base + '/x', 1000)
        nodes += K.trashed(td, 'old1', pv(base + '/old1'), '2019-01-01T00:00:00', 'file', 2000)
        nodes += K.trashed(td, 'old2', pv(base + '/old2'), '2019-01-02T00:00:00', 'dir', 2020)
        nodes += [W.f(td + '/files/orphan', 'ORPHAN', 0o644, 2060)]
        m = W.build_model(W.W(mounts=K.MOUNTS, cwd=base, nodes=nodes))
        e = scen.env()
        d = [1, 30][days]
        ref = m.clone()
        scen.run_model(None, [C('empty', [str(d)], e, now='2020-06-15T12:00:00', cwd=base)], model=ref)
        before = ref.snap('/')
        procs = [sched.Proc(C('empty', [str(d)], e, now='2020-06-15T12:00:00', cwd=base), 'empty'),
                 sched.Proc(C('put', ['--', 'x'], e, now='2020-06-15T12:00:00', cwd=base), 'put')]
        rt.begin(('put-during-empty-days', k, d, K.KINDS[kind], base))
        sched.run_schedule(m, procs, [(0, k), (1, None)])
        if len(procs[0].log) >= 150:
            return rt.fail('C01:bound-too-small', 'trash-empty made %d system calls; preemption points only range over 0..149' % len(procs[0].log))
        after = m.snap('/')
        if procs[0].result['exc']:
            return rt.fail('C01:traceback:%s:concurrent-empty' % procs[0].result['exc'].split(':')[0], procs[0].result['exc'])
        return oracle([before, procs[1].result, after], 'x', base + '/x', 'entry', '%s:trash-put completes while trash-empty %d runs' % (K.KINDS[kind], d))


def w_put_during_empty(k: int, kind: int, days: int, tdk: int) -> str:
    """
    pre: PARTITION is None or (days == PARTITION[0] and tdk == PARTITION[1])
    pre: 0 <= k < 150 and 0 <= kind < 6 and 0 <= days < 2 and 0 <= tdk < 2
    post: _ == ''
    """
    return _put_during_empty(rt.sel(k, 150), rt.sel(kind, 6), rt.sel(days, 2), rt.sel(tdk, 2))


def w_spell(kind: int, sp: int, mode: int) -> str:
    """
    pre: PARTITION is None or kind == PARTITION
    pre: 0 <= kind < 6 and 0 <= sp < NSP and 0 <= mode < 8
    post: _ == ''
    """
    return _case(rt.sel(kind, 6), rt.sel(sp, NSP), rt.sel(mode, 8), 0, 0, 0, 0, 0, 0)


def w_dirs(kind: int, top: int, alt: int, pre: int, sp: int) -> str:
    """
    pre: PARTITION is None or kind == PARTITION
    pre: 0 <= kind < 6 and 0 <= top < 6 and 0 <= alt < 3 and 0 <= pre < 9 and 0 <= sp < 3
    post: _ == ''
    """
    return _case(rt.sel(kind, 6), rt.of([0, 4, 6], sp), 0, 0, 0, rt.sel(top, 6), rt.sel(alt, 3), rt.sel(pre, 9), 0)


def w_names(kind: int, nm: int, verbose: int, td: int, sp: int) -> str:
    """
    pre: PARTITION is None or kind == PARTITION
    pre: 0 <= kind < 6 and 1 <= nm <= 6 and 0 <= verbose < 3 and 0 <= td < 3 and 0 <= sp < 3
    post: _ == ''
    """
    return _case(rt.sel(kind, 6), rt.of([0, 2, 6], sp), 0, rt.sel(td, 3), 0, 5, 0, 0, rt.sel(verbose, 3), 0, rt.sel(nm, 7))


def w_home(kind: int, hv: int, td: int, fb: int, verbose: int) -> str:
    """
    pre: PARTITION is None or kind == PARTITION
    pre: 0 <= kind < 6 and 1 <= hv <= 4 and 0 <= td < 3 and 0 <= fb < 4 and 0 <= verbose < 2
    post: _ == ''
    """
    return _case(rt.sel(kind, 6), 0, 0, rt.sel(td, 3), rt.sel(fb, 4), 5, 0, 0, rt.sel(verbose, 2), rt.sel(hv, 5))


def w_opts(kind: int, td: int, fb: int, alt: int, verbose: int, sp: int) -> str:
    """
    pre: PARTITION is None or kind == PARTITION
    pre: 0 <= kind < 6 and 0 <= td < 3 and 0 <= fb < 4 and 0 <= alt < 3 and 0 <= verbose < 3 and 0 <= sp < 3
    post: _ == ''
    """
    return _case(rt.sel(kind, 6), rt.of([0, 5, 11], sp), 0, rt.sel(td, 3), rt.sel(fb, 4), 5, rt.sel(alt, 3), 0, rt.sel(verbose, 3))


def w_full_opts(kind: int, sp: int, mode: int, td: int, fb: int) -> str:
    """
    pre: PARTITION is None or kind == PARTITION
    pre: 0 <= kind < 6 and 0 <= sp < NSP and 0 <= mode < 8 and 0 <= td < 3 and 0 <= fb < 4
    post: _ == ''
    """
    return _case(rt.sel(kind, 6), rt.sel(sp, NSP), rt.sel(mode, 8), rt.sel(td, 3), rt.sel(fb, 4), 5, 0, 0, 0)


def w_full_dirs(kind: int, sp: int, fb: int, top: int, alt: int, pre: int) -> str:
    """
    pre: PARTITION is None or kind == PARTITION
    pre: 0 <= kind < 6 and 0 <= sp < NSP and 0 <= fb < 4 and 0 <= top < 6 and 0 <= alt < 3 and 0 <= pre < 9
    post: _ == ''
    """
    return _case(rt.sel(kind, 6), rt.sel(sp, NSP), 0, 0, rt.sel(fb, 4), rt.sel(top, 6), rt.sel(alt, 3), rt.sel(pre, 9), 0)


PUT_FUNCS = ['trashcli.put.main.main', 'TrashPutCmd.run_put', 'Parser.parse_args', 'Context.trash_each',
             'Trasher.trash_single', 'should_skipped_by_specs', 'FileTrasher.trash_file',
             'TrashDirectoriesFinder.possible_trash_directories_for', 'Janitor.trash_file_in',
             'SecurityCheck.check_trash_dir_is_secure', 'TrashDirChecker.file_could_be_trashed_in',
             'TrashDirCreator.make_candidate_dirs', 'TrashInfoCreator.make_trashinfo_data',
             'InfoFilePersister.try_persist', 'PutTrashDir.try_trash', 'move_file', 'RealFs.*',
             'trashcli.fs.atomic_write/move/remove_file', 'VolumeOfImpl.volume_of']
STUBS = ['PosixModel syscalls', 'CPython posixpath/genericpath/shutil/os.makedirs re-executed over the model',
         'clock', 'stdin', 'mount table']


def obligations(tier):
    obs = [
        CH('K1_dot_entries_all_strings', MOD, 'k1_dot', timeout=90 if tier == 'quick' else 900, partitions=[6 if tier == 'quick' else 10], engine='K', regime='traced',
           encodes=['trashcli.put.core.trashee.should_skipped_by_specs'],
           bounds='path: any str, len <= %d' % (6 if tier == 'quick' else 10), outside='longer strings'),
        CH('W_spelling_x_kind_x_mode', MOD, 'w_spell', timeout=600, partitions=list(range(6)), engine='W', regime='selector',
           encodes=PUT_FUNCS, stubs=STUBS, bounds='6 kinds x %d spellings x 8 mode/reply combinations; default options' % NSP),
        CH('W_trashdir_states', MOD, 'w_dirs', timeout=900, partitions=list(range(6)), engine='W', regime='selector',
           encodes=PUT_FUNCS, stubs=STUBS, bounds='6 kinds x 6 .Trash states x 3 .Trash-uid states x 9 pre-existing (incl. 250-byte names with an orphan on the truncated name, names ending in .trashinfo) x 3 spellings'),
        CH('W_options', MOD, 'w_opts', timeout=900, partitions=list(range(6)), engine='W', regime='selector',
           encodes=PUT_FUNCS, stubs=STUBS, bounds='6 kinds x 3 --trash-dir x 4 fallback x 3 .Trash-uid x 3 -v x 3 spellings'),
    ]
    obs.append(CH('W_names_with_format_characters', MOD, 'w_names', timeout=600, partitions=list(range(6)), engine='W', regime='selector', encodes=PUT_FUNCS, stubs=STUBS,
                  bounds='6 kinds x 6 names containing % ( ) { } quotes newline x -v count 0..2 x 3 --trash-dir x 3 spellings'))
    obs.append(CH('W_home_directory_names', MOD, 'w_home', timeout=600, partitions=list(range(6)), engine='W', regime='selector', encodes=PUT_FUNCS, stubs=STUBS,
                  bounds='6 kinds x 4 $HOME values containing ( [ + backslash space $ * x 3 --trash-dir x 4 fallback switches x -v or not'))
    obs.append(CH('W_put_completes_while_days_limited_empty_runs', MOD, 'w_put_during_empty', timeout=900, partitions=[(d, t) for d in range(2) for t in range(2)], engine='W', regime='selector',
                  encodes=PUT_FUNCS + K_EMPTY, stubs=STUBS + ['replay-stepping scheduler (vf/sched.py)'],
                  bounds='trash-empty DAYS (1 | 30), purging two old entries and an orphan, preempted after k system calls (k in 0..149, runs are shorter: checked) by a complete trash-put; 6 kinds x 2 trash directories',
                  outside='plain trash-empty; more than one preemption'))
    obs.append(CH('W_only_child_of_its_directory', MOD, 'w_lonely', timeout=300, engine='W', regime='selector', encodes=PUT_FUNCS, stubs=STUBS,
                  bounds='the entry is the only child (or grandchild) of its directory x alone / followed by that directory as the next argument x 6 kinds x 3 spellings'))
    obs.append(CH('W_days_limited_empty_completes_while_put_runs', MOD, 'w_with_empty', timeout=900, partitions=[(d, t) for d in range(2) for t in range(3)], engine='W', regime='selector',
                  encodes=PUT_FUNCS + K_EMPTY, stubs=STUBS + ['replay-stepping scheduler (vf/sched.py)'],
                  bounds='trash-put preempted after k system calls, k in 0..79 (runs are shorter: checked), by a complete trash-empty DAYS (1 | 30) on the same trash directory; 6 kinds x 3 trash-dir situations',
                  outside='plain trash-empty (purges everything it sees, also an entry being made); more than one preemption'))
    if tier == 'thorough':
        obs.append(CH('W_spelling_mode_trashdir_fallback', MOD, 'w_full_opts', timeout=3000, partitions=list(range(6)), twin=False, engine='W',
                      regime='selector', encodes=PUT_FUNCS, stubs=STUBS,
                      bounds='6 kinds x %d spellings x 8 modes x 3 --trash-dir x 4 fallback switches' % NSP))
        obs.append(CH('W_spelling_fallback_dirstates', MOD, 'w_full_dirs', timeout=6000, partitions=list(range(6)), twin=False, engine='W',
                      regime='selector', encodes=PUT_FUNCS, stubs=STUBS,
                      bounds='6 kinds x %d spellings x 4 fallback x 6 .Trash x 3 .Trash-uid x 9 pre-existing states' % NSP))
    from harness import kpair
    return kpair.obligations(tier) + obs

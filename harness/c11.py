"""C11 -- purging touches nothing outside the trash directories and follows no symlink."""
from vf import rt, scen, world as W
from vf.commands import C
from vf.runner import CH
from harness import common as K, kpair

PARTITION = None
MOD = 'harness.c11'
META = {
    'level': 'other',
    'explanation': 'Bounded symbolic checking with CrossHair/z3. K_backup_path: the real path_of_backup_copy over ALL info '
                   'file names up to the bound: the payload path derived from an info path never leaves <trash>/files. '
                   'W: the real trash-empty / trash-rm main() on the PosixModel (CPython shutil.rmtree re-executed over '
                   'the modelled syscalls) over symbolic selectors: payload kind (links to outside files/dirs, absolute, '
                   'relative, dangling, trees containing such links), unusual info names, trash dir reached through a '
                   'symlink, command; oracle: everything outside files/ and info/ is snapshot-identical.',
    'assumptions': ['PosixModel fidelity incl. unlink(dir)=EISDIR, rmtree refusing links (./check MODEL)'],
}


PAYLOADS = ['link-abs-file', 'link-abs-dir', 'link-rel-file', 'link-rel-dir', 'dangling', 'tree-with-links', 'plain',
            'link-to-trash-root', 'link-to-info-dir', 'link-dotdot', 'deep-tree']
INFONAMES = ['e', 'x.trashinfo', 'new\nline', '.hidden', 'a b', '-rf', '', '.', '..']
CRAFTED = ('', '.', '..')  # info files '.trashinfo', '..trashinfo', '...trashinfo': no payload can exist
CMDS = ['empty', 'empty-days', 'rm-star', 'rm-exact', 'empty-trash-dir', 'rm-abs', 'empty+unlink-refused', 'rm-star+unlink-refused', 'empty+rmdir-refused', 'empty-verbose', 'empty-days-vv', 'empty-dry-run-v']
NCMD = len(CMDS)
VIA = ['direct', 'symlinked-trash-dir', 'symlinked-files-dir', 'explicit-through-a-link-and-dotdot']


def payload_nodes(pk, path):
    k = PAYLOADS[pk]
    if k == 'link-abs-file':
        return [W.l(path, '/v/out/target.txt', 3000)]
    if k == 'link-abs-dir':
        return [W.l(path, '/v/out/tdir', 3000)]
    if k == 'link-rel-file':
        return [W.l(path, '../../out/target.txt', 3000)]
    if k == 'link-rel-dir':
        return [W.l(path, '../../out/tdir', 3000)]
    if k == 'dangling':
        return [W.l(path, '/nowhere', 3000)]
    if k == 'tree-with-links':
        return [W.d(path), W.l(path + '/l1', '/v/out/tdir', 3001), W.d(path + '/s'), W.l(path + '/s/l2', '/v/out/target.txt', 3002),
                W.l(path + '/s/l3', '../../../../out/tdir', 3003), W.f(path + '/s/f', 'F', 0o644, 3004)]
    if k == 'plain':
        return [W.f(path, 'PLAIN', 0o644, 3000)]
    if k == 'link-to-trash-root':
        return [W.l(path, '..', 3000)]
    if k == 'link-to-info-dir':
        return [W.l(path, '../info', 3000)]
    if k == 'link-dotdot':
        return [W.l(path, '../../..', 3000)]
    if k == 'deep-tree':
        return [W.d(path), W.d(path + '/a'), W.d(path + '/a/b'), W.d(path + '/a/b/c'), W.l(path + '/a/b/c/up', '/v/out', 3001),
                W.f(path + '/a/b/c/f', 'DEEP', 0o600, 3002)]
    raise ValueError(k)


def _case(pk, iname, cmd, via):
    with rt.untraced():
        rt.begin((PAYLOADS[pk], INFONAMES[iname], CMDS[cmd], VIA[via]))
        name = INFONAMES[iname]
        c0 = CMDS[cmd]
        nodes = [W.d('/h'), W.f('/v/keep', 'KEEP', 0o644, 800), W.d('/v/w'), W.f('/v/w/e', 'LIVE', 0o644, 801)] + K.sentinels('/v/out')
        nodes += [W.f('/v/out/tdir/sub/deep', 'D', 0o644, 906)]
        v = VIA[via]
        real_td = '/v/.Trash-1000'
        if v == 'symlinked-trash-dir':
            real_td = '/v/realtrash'
            nodes.append(W.l('/v/.Trash-1000', 'realtrash', 950))
        spelled = None
        if v == 'explicit-through-a-link-and-dotdot':
            # --trash-dir /v/out/hop/../T with hop -> /v/deep/inner: for the kernel that is /v/deep/T; a lexical
            # normalisation makes it /v/out/T, another directory (here: one that has files/ and info/ of its own)
            if not c0.startswith('empty'):
                return rt.ok()  # (trash-rm has no --trash-dir)
            real_td, spelled = '/v/deep/T', '/v/out/hop/../T'
            nodes += [W.d('/v/deep/inner'), W.l('/v/out/hop', '/v/deep/inner', 953)]
            nodes += K.trashed('/v/out/T', 'e', 'w/e', '2019-01-01T00:00:00', 'file', 3340) + K.trashed('/v/out/T', 'zz', 'w/zz', '2019-01-01T00:00:00', 'dir', 3360)
        nodes += [W.d(real_td, 0o700), W.d(real_td + '/info', 0o700)]
        files_dir = real_td + '/files'
        if v == 'symlinked-files-dir':
            files_dir = '/v/realfiles'
            nodes += [W.d('/v/realfiles', 0o700), W.l(real_td + '/files', '/v/realfiles', 951)]
        else:
            nodes.append(W.d(files_dir, 0o700))
        if name not in CRAFTED:
            nodes += payload_nodes(pk, files_dir + '/' + name)
        nodes.append(W.f(real_td + '/info/' + name + '.trashinfo', K.info_text('w/e', '2020-01-01T00:00:00'), 0o600, 3100))
        # a second, ordinary entry and something else inside the trash dir that is not files/ or info/
        nodes += [W.f(files_dir + '/zz', 'ZZ', 0o644, 3200),
                  W.f(real_td + '/info/zz.trashinfo', K.info_text('w/zz', '2020-01-01T00:00:00'), 0o600, 3201),
                  W.f(real_td + '/directorysizes', 'x', 0o644, 3202)]
        # orphans (payloads without a .trashinfo) that are symbolic links to directories outside: trash-empty sweeps
        # orphans too, and must unlink the link, not empty what it points to
        nodes += [W.l(files_dir + '/orphan-link-abs', '/v/out/tdir', 3210), W.l(files_dir + '/orphan-link-rel', '../../out/tdir', 3211),
                  W.d(files_dir + '/orphan-tree'), W.l(files_dir + '/orphan-tree/inner-link', '/v/out/tdir', 3212)]
        # a decoy: $topdir/.Trash is a symbolic link to a sticky directory that holds a $uid directory with entries.
        # A symlinked .Trash must not be used, so nothing behind the link may be purged (it is outside every trash dir)
        nodes += [W.d('/v/shared', 0o1777), W.l('/v/.Trash', 'shared', 952), W.f('/v/shared/1000/files/orphan', 'DECOY-ORPHAN', 0o644, 3300)]
        nodes += K.trashed('/v/shared/1000', 'e', 'w/e', '2019-01-01T00:00:00', 'file', 3320)
        world = W.W(mounts=K.MOUNTS, cwd='/v', nodes=nodes)
        c = CMDS[cmd]
        if c == 'empty':
            step = C('empty', [], scen.env(), cwd='/v')
        elif c == 'empty-days':
            step = C('empty', ['1'], scen.env(), now='2020-06-01T00:00:00', cwd='/v')
        elif c == 'empty-verbose':
            step = C('empty', ['-v'], scen.env(), cwd='/v')
        elif c == 'empty-days-vv':
            step = C('empty', ['-vv', '1'], scen.env(), now='2020-06-01T00:00:00', cwd='/v')
        elif c == 'empty-dry-run-v':
            step = C('empty', ['--dry-run', '-v'], scen.env(), cwd='/v')
        elif c == 'rm-star':
            step = C('rm', ['*'], scen.env(), cwd='/v')
        elif c == 'rm-exact':
            step = C('rm', ['e'], scen.env(), cwd='/v')
        elif c == 'rm-abs':
            step = C('rm', ['/v/w/*'], scen.env(), cwd='/v')
        elif c in ('empty+unlink-refused', 'empty+rmdir-refused'):
            step = C('empty', [], scen.env(), cwd='/v')
        elif c == 'rm-star+unlink-refused':
            step = C('rm', ['*'], scen.env(), cwd='/v')
        else:
            step = C('empty', ['--trash-dir', '/v/.Trash-1000'], scen.env(), cwd='/v')
        if spelled is not None:
            step = dict(step, args=[a for a in step['args'] if a not in ('--trash-dir', '/v/.Trash-1000')] + ['--trash-dir', spelled])
        hook = None
        if c.endswith('unlink-refused'):
            # one entry inside the trashed tree cannot be unlinked (read-only directory, non-root user): EACCES once
            hook = scen.OneShotFault('unlink', 13, pred=lambda a: len(a) > 1 and a[1] is not None)
        elif c.endswith('rmdir-refused'):
            hook = scen.OneShotFault('rmdir', 13, pred=lambda a: len(a) > 1 and a[1] is not None)
        m, res = scen.run_model(world, [{'snap': '/'}, step, {'snap': '/'}], hook=hook)
        before, r, after = res
        label = 'payload=%s:via=%s:cmd=%s' % (PAYLOADS[pk], v, c)
        if name in CRAFTED:
            label = 'crafted-info=%s.trashinfo:via=%s:cmd=%s' % (name, v, c)
        removed, added, changed = scen.delta(before, after)
        if c == 'empty-dry-run-v':
            if after != before:
                return rt.fail('C11:dry-run-touched-something:' + label, 'removed=%r changed=%r' % (sorted(removed)[:5], sorted(changed)[:5]))
            return rt.ok()
        info_dir = real_td + '/info'
        for p in list(removed) + list(added) + list(changed):
            if scen.is_under(p, files_dir) and p != files_dir:
                continue
            if scen.is_under(p, info_dir) and p != info_dir:
                continue
            return rt.fail('C11:outside-touched:' + label, '%r changed (removed=%r added=%r changed=%r; stderr %r)' % (
                p, sorted(removed)[:5], sorted(added)[:5], sorted(changed)[:5], r['err'][-200:]))
        if hook is not None:
            return rt.ok()  # with a refused removal the purge may stay incomplete; only 'outside untouched' is demanded
        if r['exc']:
            return rt.fail('C11:traceback:%s:%s' % (r['exc'].split(':')[0], label), r['exc'])
        # the entry under test must be gone (both commands select it)
        if name in CRAFTED:
            if c == 'rm-exact' and scen.sub(after, files_dir + '/zz') is None:
                return rt.fail('C11:crafted-info-purged-other-payloads:' + label, 'zz payload gone')
            return rt.ok()
        if scen.sub(after, files_dir + '/' + name) is not None or scen.sub(after, info_dir + '/' + name + '.trashinfo') is not None:
            return rt.fail('C11:entry-not-purged:' + label, 'payload %s, info %s; stderr %r' % (
                scen.sub(after, files_dir + '/' + name) is not None, scen.sub(after, info_dir + '/' + name + '.trashinfo') is not None, r['err'][-300:]))
        return rt.ok()


def w_main(pk: int, iname: int, cmd: int, via: int) -> str:
    """
    pre: PARTITION is None or pk == PARTITION
    pre: 0 <= pk < 11 and 0 <= iname < 9 and 0 <= cmd < NCMD and 0 <= via < 4
    post: _ == ''
    """
    return _case(rt.sel(pk, 11), rt.sel(iname, 9), rt.sel(cmd, NCMD), rt.sel(via, 4))


def obligations(tier):
    return kpair.obligations(tier) + [
        CH('W_payload_x_name_x_cmd_x_via', MOD, 'w_main', timeout=900, partitions=list(range(11)), engine='W', regime='selector',
           encodes=K.EMPTY_FUNCS + K.RM_FUNCS + ['RealRemoveFile2.remove_file2', 'shutil.rmtree (CPython source over the model)'],
           stubs=K.STUBS, bounds='11 payload shapes x 9 info names (incl. crafted .trashinfo, ..trashinfo, ...trashinfo) x 12 commands (incl. -v / -vv / --dry-run -v, one refused unlink/rmdir inside the trashed tree) x 4 ways of reaching the trash dir (incl. --trash-dir spelled through a symlink and ..)'),
    ]

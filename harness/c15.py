"""C15 -- killing restore, empty or rm at any instant never strands a payload without info."""
from vf import rt, scen, world as W
from vf.commands import C
from vf.runner import CH
from harness import common as K
from harness.c05 import same_payload

PARTITION = None
MOD = 'harness.c15'
KMAX = 400
META = {
    'level': 'model_checking',
    'explanation': 'Bounded symbolic checking with CrossHair/z3: the real trash-restore / trash-empty / trash-rm main() on '
                   'the PosixModel with a crash hook; crash point k and configuration are solver variables; the invariant '
                   '(every payload under files/ still has its .trashinfo; an entry being restored is complete in the trash '
                   'or at its destination) is evaluated at the crash instant, then the same command is re-run to '
                   'completion from the crashed state (purges complete; leftovers of a killed restore can be purged). '
                   'states = distinct (configuration, k); transitions = system calls executed.',
    'assumptions': ['crash = fail-stop between two system calls; syscalls atomic', 'PosixModel fidelity'],
}

CMDS = ['restore-same-volume', 'restore-cross-volume', 'restore-two', 'empty', 'empty-days', 'rm-star', 'rm-one', 'restore-overwrite',
        'restore-missing-parent', 'empty-info-dir-symlinked', 'rm-star-info-dir-symlinked']
NCMD = len(CMDS)


def scenario(kind, cmd):
    c = CMDS[cmd]
    nodes = [W.d('/h'), W.d('/v/w'), W.f('/v/keep', 'KEEP', 0o644, 800)] + K.sentinels('/v/out')
    td = '/v/.Trash-1000'
    e = scen.env()
    dest = '/v/w/x'
    if c == 'restore-cross-volume':
        # a --trash-dir on the root volume holding an entry whose original location is on /v
        td = '/ct'
        nodes += K.trashed(td, 'x', '/v/w/x', '2020-01-02T00:00:00', K.KINDS[kind], 2000)
        nodes += K.trashed(td, 'y', '/v/w/y', '2020-01-01T00:00:00', 'dir', 2100)
        step = C('restore', ['--trash-dir', td, '/v/w'], e, stdin=['1'], cwd='/')
        sel = ['x']
    else:
        # (the volume also has a valid, empty $topdir/.Trash/$uid: .Trash-$uid stays a trash directory of the volume)
        nodes += [W.d('/v/.Trash', 0o1777), W.d('/v/.Trash/1000', 0o700), W.d('/v/.Trash/1000/files', 0o700), W.d('/v/.Trash/1000/info', 0o700)]
        nodes += K.trashed(td, 'x', 'w/x', '2020-01-02T00:00:00', K.KINDS[kind], 2000)
        nodes += K.trashed(td, 'y', 'w/y%20', '2020-01-01T00:00:00', 'dir', 2100)  # (trashed from a name ending in a blank: 'y ')
        nodes += K.trashed(td, 'z', 'w/sub/z', '2020-01-03T00:00:00', 'link-dir', 2200)
        if c == 'restore-same-volume':
            step, sel = C('restore', ['/v/w'], e, stdin=['1'], cwd='/'), ['x']
        elif c == 'restore-two':
            step, sel = C('restore', ['/v/w'], e, stdin=['0-1'], cwd='/'), ['y', 'x']
        elif c == 'restore-overwrite':
            nodes.append(W.f('/v/w/x', 'OLD', 0o644, 700))
            step, sel = C('restore', ['--overwrite', '/v/w'], e, stdin=['1'], cwd='/'), ['x']
        elif c == 'restore-missing-parent':
            step, sel = C('restore', ['/v/w'], e, stdin=['2'], cwd='/'), ['z']
            dest = '/v/w/sub/z'
        elif c in ('empty', 'empty-info-dir-symlinked'):
            step, sel = C('empty', [], e, cwd='/'), ['x', 'y', 'z']
        elif c == 'empty-days':
            step, sel = C('empty', ['1'], e, now='2020-01-03T12:00:00', cwd='/'), ['x', 'y']
        elif c in ('rm-star', 'rm-star-info-dir-symlinked'):
            step, sel = C('rm', ['*'], e, cwd='/'), ['x', 'y', 'z']
        else:
            step, sel = C('rm', ['x'], e, cwd='/'), ['x']
    if c.endswith('info-dir-symlinked'):
        # info/ is a symbolic link to a directory elsewhere on the volume (files/ is a plain directory)
        moved = []
        for n in nodes:
            n = list(n)
            if n[1] == td + '/info' and n[0] == 'd':
                continue
            if n[1].startswith(td + '/info/'):
                n[1] = '/v/realinfo/' + n[1][len(td + '/info/'):]
            moved.append(n)
        nodes = moved + [W.d('/v/realinfo', 0o700), W.l(td + '/info', '/v/realinfo', 960)]
    world = W.W(mounts=K.MOUNTS, cwd='/', nodes=nodes)
    return world, step, td, sel, dest


def invariant(before, after, td, label, restoring):
    ents = scen.trash_entries(after, td)
    old = scen.trash_entries(before, td)
    for name, (info, pl) in ents.items():
        if pl is not None and info is None:
            return rt.fail('C15:payload-without-info:' + label, '%s/files/%s has no .trashinfo' % (td, name))
    for name, dest in restoring:
        oinfo, opl = old[name]
        in_trash = ents.get(name, (None, None))[1]
        at_dest = scen.sub(after, dest)
        if not (same_payload(in_trash, opl) or same_payload(at_dest, opl)):
            return rt.fail('C15:entry-lost-or-split:' + label, '%s: in trash %r, at destination %r' % (
                name, None if in_trash is None else 'partial/other', None if at_dest is None else 'partial/other'))
    return ''


MODES = ['kill', 'sigint-before-syscall', 'sigint-after-syscall']
_KB = {}


def kbound(cmd):
    """1 + the longest undisturbed run (system calls) of this command scenario over the 6 entry kinds, measured"""
    if cmd is None:
        return KMAX
    if cmd not in _KB:
        with rt.untraced():
            n = 0
            for kind in range(6):
                world, step, td, sel, dest = scenario(kind, cmd)
                m = W.build_model(world)
                _, r0 = scen.run_model(None, [step], model=m)
                n = max(n, r0[0]['ops'])
            _KB[cmd] = n + 1
    return _KB[cmd]


def _case(kind, cmd, k, mode=0):
    with rt.untraced():
        world, step, td, sel, dest = scenario(kind, cmd)
        label = '%s:%s' % (K.KINDS[kind], CMDS[cmd])
        m = W.build_model(world)
        before = m.snap('/')
        probe = m.clone()
        _, r0 = scen.run_model(None, [step], model=probe)
        n = r0[0]['ops']
        if n >= KMAX or n >= kbound(cmd):
            return rt.fail('C15:bound-too-small', '%d system calls' % n)
        if r0[0]['exc']:
            return rt.fail('C15:uncrashed-run-traceback:' + label, r0[0]['exc'])
        if k > n or (mode and k == n):
            rt.begin()
            return rt.ok()
        rt.begin((K.KINDS[kind], CMDS[cmd], k, n, MODES[mode]))
        hook = scen.CrashHook(k) if mode == 0 else scen.InterruptHook(k, after=(mode == 2))
        _, r = scen.run_model(None, [step], hook=hook, model=m)
        after = m.snap('/')
        if mode:
            label += ':' + MODES[mode]
        # (a process that received SIGINT may well die with a traceback: that is still 'killed')
        is_restore = CMDS[cmd].startswith('restore')
        restoring = []
        if is_restore:
            for name in sel:
                restoring.append((name, {'x': '/v/w/x', 'y': '/v/w/y ', 'z': '/v/w/sub/z'}[name]))
        x = invariant(before, after, td, label, restoring)
        if x:
            return x + ' [%s, syscall %d of %d: %r]' % (MODES[mode], k, n, m.oplog[-3:])
        # recovery
        if is_restore:
            rec = C('empty', ['--trash-dir', td] if td == '/ct' else [], scen.env(), cwd='/')
            _, rr = scen.run_model(None, [rec], model=m)
            if rr[0]['exc']:
                return rt.fail('C15:purge-after-killed-restore-crashes:' + label, rr[0]['exc'])
            left = scen.trash_entries(m.snap('/'), td)
            if left:
                return rt.fail('C15:leftovers-cannot-be-purged:' + label, repr(sorted(left)))
        else:
            _, rr = scen.run_model(None, [step], model=m)
            if rr[0]['exc']:
                return rt.fail('C15:rerun-crashes:' + label, rr[0]['exc'] + ' after crash at %d' % k)
            left = scen.trash_entries(m.snap('/'), td)
            for name in sel:
                if name in left:
                    return rt.fail('C15:rerun-does-not-complete:' + label, '%s still there: %r (crash at %d/%d)' % (name, left[name], k, n))
        return rt.ok()


def w_crash(kind: int, cmd: int, k: int, mode: int) -> str:
    """
    pre: PARTITION is None or (cmd == PARTITION[0] and mode == PARTITION[1])
    pre: 0 <= kind < 6 and 0 <= cmd < NCMD and 0 <= k < kbound(None if PARTITION is None else PARTITION[0]) and 0 <= mode < 3
    post: _ == ''
    """
    return _case(rt.sel(kind, 6), rt.sel(cmd, NCMD), rt.sel(k, kbound(None if PARTITION is None else PARTITION[0])), rt.sel(mode, 3))


def obligations(tier):
    from harness import kpair
    return kpair.obligations(tier) + [CH('W_crash_point_x_kind_x_cmd', MOD, 'w_crash', timeout=1800, partitions=[(c, md) for c in range(NCMD) for md in range(3)], engine='W',
               regime='selector', encodes=K.RESTORE_FUNCS + K.EMPTY_FUNCS + K.RM_FUNCS + ['shutil.move/rmtree (CPython source over the model)'],
               stubs=K.STUBS + ['SIGKILL -> sticky BaseException at the k-th system call', 'SIGINT -> one KeyboardInterrupt instead of / right after the k-th system call'],
               bounds='crash point k in 0..(longest undisturbed run of the command scenario, measured) x 3 ways of dying (fail-stop; KeyboardInterrupt before / after the k-th system call, handlers run) x 6 kinds x 11 commands (incl. empty / rm * on a trash dir whose info/ is a symlink) '
                                     '(restore same/cross volume, two entries, --overwrite, missing parent; empty; empty DAYS; rm *, rm one)')]

"""developer aid: regenerate the tables of DESIGN.md section 12 (between the TABLE markers) from evidence_by_tier/"""
import subprocess, sys, re
out = []
for tier in ('quick', 'thorough'):
    t = subprocess.run([sys.executable, 'dev_table.py', 'bounds' if tier == 'quick' else '', 'evidence_by_tier/' + tier] if tier == 'quick'
                       else [sys.executable, 'dev_table.py', '', 'evidence_by_tier/' + tier], capture_output=True, text=True).stdout
    if tier == 'thorough':
        # (sys.argv[1] == '' still counts as given: cut the bounds list, it is the same text as in the quick tier or longer)
        t = t.split('\n\n* **')[0] + '\n'
    out.append('### Tier %s (last run of each property in that tier)\n\n%s' % (tier, t))
s = open('DESIGN.md').read()
s = re.sub(r'<!-- TABLE -->.*<!-- /TABLE -->', lambda m: '<!-- TABLE -->\n' + '\n'.join(out) + '<!-- /TABLE -->', s, flags=re.S)
open('DESIGN.md', 'w').write(s)
print('spliced', [len(o) for o in out])

"""developer aid (NOT a registered check): run the selector obligations of a harness concretely.

For every CH obligation of regime 'selector' the wrapper function is called natively for every tuple of
selector values admitted by its PEP-316 preconditions (the very cases CrossHair enumerates symbolically).
Used to try a candidate change of trash-cli quickly:  PYTHONPATH=<worktree>:/verif python dev_all.py C07 [quick|thorough]
"""
import collections
import importlib
import inspect
import itertools
import re
import sys
import time


def bounds_of(fn, mod):
    doc = fn.__doc__ or ''
    pres = [l.split('pre:', 1)[1].strip() for l in doc.splitlines() if l.strip().startswith('pre:')]
    sig = inspect.signature(fn)
    ranges = {}
    for name, prm in sig.parameters.items():
        if prm.annotation is bool:
            ranges[name] = [False, True]
            continue
        hi = None
        lo = 0
        for p in pres:
            m = re.search(r'(\d+)\s*<=\s*%s\s*<=\s*(\(.*?\)(?= and|$)|\w+\([^)]*\)|[^ )]+)' % name, p)
            if m:
                lo, hi = int(m.group(1)), eval(m.group(2), vars(mod)) + 1
                break
            m = re.search(r'(\d+)\s*<=\s*%s\s*<\s*(\(.*?\)(?= and|$)|\w+\([^)]*\)|[^ )]+)' % name, p)
            if m:
                lo, hi = int(m.group(1)), eval(m.group(2), vars(mod))
                break
        if hi is None:
            raise ValueError('no bound for %s in %r' % (name, pres))
        ranges[name] = list(range(lo, hi))
    return pres, ranges


def run(prop, tier='quick', only=None, show=12, depth=4):
    mod = importlib.import_module('harness.' + prop.lower())
    total = collections.OrderedDict()
    for ob in mod.obligations(tier):
        if getattr(ob, 'regime', None) != 'selector':
            continue
        if only and only not in ob.name:
            continue
        m2 = importlib.import_module(ob.module)
        fn = getattr(m2, ob.fn)
        parts = ob.partitions if ob.partitions else [None]
        n = 0
        t0 = time.time()
        bad = collections.OrderedDict()
        for part in parts:
            m2.PARTITION = part
            pres, ranges = bounds_of(fn, m2)
            names = list(ranges)
            # narrow by the PARTITION equalities first (cheap pruning)
            for tup in itertools.product(*[ranges[k] for k in names]):
                env = dict(zip(names, tup))
                g = vars(m2)
                try:
                    if not all(eval(p, g, env) for p in pres):
                        continue
                except Exception:
                    continue
                try:
                    r = fn(*tup)
                except Exception as e:
                    import traceback
                    r = 'EXC:%s :: %s %s' % (type(e).__name__, e, traceback.format_exc()[-500:])
                n += 1
                if r and r != 'twin-reached':
                    kk = ':'.join(r.split(' :: ')[0].split(':')[:depth])
                    bad.setdefault(kk, []).append((part, tup, r))
        m2.PARTITION = None
        print('%s %s: %d cases, %.1fs, %d failing groups' % (prop, ob.name, n, time.time() - t0, len(bad)))
        for k, v in list(bad.items())[:show]:
            print('   -- %s (%d cases) e.g. %r %r\n      %s' % (k, len(v), v[0][0], v[0][1], v[0][2][:700]))
        total.update(bad)
    return total


if __name__ == '__main__':
    run(sys.argv[1], sys.argv[2] if len(sys.argv) > 2 else 'quick', sys.argv[3] if len(sys.argv) > 3 else None)

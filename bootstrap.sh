#!/bin/sh
# Idempotent, offline: overlay virtualenv on /venv with crosshair-tool + z3-solver
# from the local wheelhouse; trash-cli itself is imported from /repo's working tree.
set -e
cd "$(dirname "$0")"
V=.venv
STAMP=$V/.verif-ready
if [ -f "$STAMP" ] && $V/bin/python -c "import crosshair, z3, trashcli" 2>/dev/null; then
  exit 0
fi
(
  flock 9
  if [ -f "$STAMP" ] && $V/bin/python -c "import crosshair, z3, trashcli" 2>/dev/null; then
    exit 0
  fi
  rm -rf $V
  /venv/bin/python -m venv $V
  SP=$($V/bin/python -c "import site;print(site.getsitepackages()[0])")
  printf '/venv/lib/python3.12/site-packages\n/repo\n' > "$SP/verif_overlay.pth"
  PIP_NO_INDEX=1 $V/bin/pip install -q --no-index --find-links /opt/veriftools/wheels crosshair-tool z3-solver >/dev/null
  $V/bin/python -c "import crosshair, z3, trashcli"
  touch $STAMP
) 9>.bootstrap.lock

#!/bin/sh
# developer aid: apply every seeded change to a scratch worktree of /repo's HEAD and run the property's quick check on it;
# each must end with exit 1 (VIOLATION).  usage: seed_regress.sh [seed ...]
here=$(cd $(dirname $0) && pwd)
seeds=${@:-$(ls $here/seeded)}
wt=/tmp/wt-regress-$$
for s in $seeds; do
  prop=$(echo $s | cut -d- -f1)
  git -C /repo worktree add -q --detach $wt HEAD || exit 2
  if git -C $wt apply $here/seeded/$s/patch.diff 2>/dev/null; then
    t=$(date +%s)
    VERIF_REPO=$wt ./check $prop --tier quick > out_seed_$s.log 2>&1
    rc=$?
    echo "$s exit=$rc $(( $(date +%s) - t ))s $(grep -m1 '^VIOLATION\|^INCONCLUSIVE' out_seed_$s.log | cut -c1-80) $(grep -A1 -m1 '^VIOLATION' out_seed_$s.log | tail -1 | cut -c1-160)"
  else
    echo "$s patch does not apply"
  fi
  git -C /repo worktree remove --force $wt
done

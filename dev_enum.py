"""developer aid (NOT a registered check): enumerate a harness _case concretely"""
import collections, itertools, sys, time, importlib
def run(modname, ranges, fn='_case', depth=2, show=25):
    mod = importlib.import_module(modname)
    f = getattr(mod, fn)
    bad = collections.OrderedDict(); n = 0; t = time.time()
    for tup in itertools.product(*ranges):
        try:
            r = f(*tup)
        except Exception as e:
            import traceback; r = 'EXC:%s :: %s %s' % (type(e).__name__, e, traceback.format_exc()[-600:])
        n += 1
        if r:
            kk = ':'.join(r.split(' :: ')[0].split(':')[:depth])
            bad.setdefault(kk, []).append((tup, r))
    print('%s: %d cases, %.1fs, %d failing groups' % (modname, n, time.time() - t, len(bad)))
    for k, v in list(bad.items())[:show]:
        print('-- %s  (%d cases) e.g. %r\n   %s\n' % (k, len(v), v[0][0], v[0][1][:900]))
    return bad

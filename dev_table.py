"""developer aid: markdown table of what the last runs covered, from evidence/*.json (pasted into DESIGN.md section 12)"""
import glob, json, sys
rows = []
for f in sorted(glob.glob((sys.argv[2] if len(sys.argv) > 2 else 'evidence') + '/C??.json')):
    d = json.load(open(f))
    cov = d['coverage']
    for ob in cov.get('obligations_detail', []):
        parts = ob.get('partitions', [])
        verdicts = sorted(set(p['verdict'] for p in parts))
        paths = sum(p.get('paths') or 0 for p in parts)
        cases = sum(p.get('distinct_cases') or 0 for p in parts)
        wall = max([p.get('wall_s') or 0 for p in parts] or [0])
        cpu = sum(p.get('wall_s') or 0 for p in parts)
        rows.append((d['property_id'], d['tier'], ob['name'], ob['engine'], len(parts), '/'.join(verdicts), paths, cases, wall, cpu, ob.get('bounds', '')))
print('| property | tier | obligation | engine | tasks | verdict | solver paths / queries | distinct cases | slowest task s | sum of task s |')
print('|---|---|---|---|---|---|---|---|---|---|')
for r in rows:
    print('| %s | %s | %s | %s | %d | %s | %d | %d | %.0f | %.0f |' % r[:10])
if len(sys.argv) > 1:
    print()
    for r in rows:
        print('* **%s %s** - %s' % (r[0], r[2], r[10]))

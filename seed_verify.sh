#!/bin/sh
# developer aid: confirm a seeded change produced in a scratch worktree and store it under seeded/<name>
# usage: seed_verify.sh <worktree> <seed name> <property>
wt=$1; name=$2; prop=$3
cd $wt || exit 2
git diff -- trashcli > /tmp/seed_$name.diff
[ -s /tmp/seed_$name.diff ] || { echo "no change in $wt"; exit 2; }
echo "== tests with the change"; /venv/bin/python -m pytest -q -p no:cacheprovider --timeout=900 --continue-on-collection-errors 2>&1 | grep -E "passed|failed" | tail -1
echo "== demo with the change"; /venv/bin/python demo.py > /tmp/seed_$name.with 2>&1; echo "exit=$?"; tail -3 /tmp/seed_$name.with
git apply -R /tmp/seed_$name.diff || exit 2
echo "== demo without the change"; /venv/bin/python demo.py > /tmp/seed_$name.without 2>&1; echo "exit=$?"; tail -2 /tmp/seed_$name.without
git apply /tmp/seed_$name.diff
mkdir -p /verif/seeded/$name
cp /tmp/seed_$name.diff /verif/seeded/$name/patch.diff
cp demo.py /verif/seeded/$name/demo.py
cp meta.txt /verif/seeded/$name/meta.txt 2>/dev/null
